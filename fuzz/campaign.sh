#!/bin/bash
# campaign.sh <property> <target> <runs-per-job> <jobs> : one bounded libFuzzer campaign (E2).
# Starts from the deterministic seed corpus + committed inputs (half of the jobs) and from an
# empty corpus (other half).  Exit 0 = no artefact violating <property>, 1 = VIOLATION,
# 2 = inconclusive (build failure, timeout-/oom- artefacts).
set -u
prop="$1"; target="$2"; runs="${3:-200000}"; jobs="${4:-8}"
here="$(cd "$(dirname "$0")/.." && pwd)"
seed="${VERIF_SEED:-1}"; [ "$seed" = "0" ] && seed=1
export CARGO_NET_OFFLINE=true
cd "$here/fuzz" || exit 2
(
  flock 9
  cargo +nightly fuzz build --fuzz-dir "$here/fuzz" >"$here/fuzz/build.log" 2>&1
) 9>"$here/fuzz/.build.lock"
bin="$here/fuzz/target/x86_64-unknown-linux-gnu/release/fz_$target"
if [ ! -x "$bin" ]; then
  echo "INCONCLUSIVE property=$prop fuzz target fz_$target did not build (fuzz/build.log)"; tail -n 20 "$here/fuzz/build.log"; exit 2
fi
verif="$here/harness/target/release/verif"
work="$here/fuzz/corpus-work/$prop-$target"
art="$here/fuzz/artifacts/$prop-$target"
rm -rf "$work" "$art"; mkdir -p "$work/seeded" "$work/empty" "$work/logs" "$art"
"$verif" seed-corpus "$target" "$work/seeded" || exit 2
[ -d "$here/corpus/$target" ] && cp "$here/corpus/$target"/* "$work/seeded/" 2>/dev/null
half=$(( jobs / 2 )); [ $half -lt 1 ] && half=1
t0=$(date +%s)
( cd "$work/logs" && mkdir -p a b
  ( cd a && "$bin" "$work/seeded" -runs="$runs" -seed="$seed" -jobs=$half -workers=$half -len_control=0 -max_len=4096 -timeout=600 -report_slow_units=300 -rss_limit_mb=8192 -artifact_prefix="$art/" -print_final_stats=1 >/dev/null 2>&1 ) &
  ( cd b && "$bin" "$work/empty" -runs="$runs" -seed=$(( seed + 1000 )) -jobs=$half -workers=$half -max_len=4096 -timeout=600 -report_slow_units=300 -rss_limit_mb=8192 -artifact_prefix="$art/" -print_final_stats=1 >/dev/null 2>&1 ) &
  wait )
t1=$(date +%s)
execs=$(cat "$work"/logs/*/fuzz-*.log 2>/dev/null | awk '/stat::number_of_executed_units/ {s+=$2} END {print s+0}')
cov=$(cat "$work"/logs/*/fuzz-*.log 2>/dev/null | grep -Eo 'cov: [0-9]+' | awk '{ if ($2>m) m=$2 } END {print m+0}')
ft=$(cat "$work"/logs/*/fuzz-*.log 2>/dev/null | grep -Eo 'ft: [0-9]+' | awk '{ if ($2>m) m=$2 } END {print m+0}')
ncorp=$(ls "$work/seeded" "$work/empty" 2>/dev/null | wc -l)
echo "E2 property=$prop target=$target jobs=$jobs runs_per_job=$runs execs=$execs cov=$cov features=$ft corpus=$ncorp wall_s=$(( t1 - t0 ))"
# record the campaign in the evidence file
python3 - "$here/evidence/$prop.json" "$target" "$execs" "$cov" "$ft" "$ncorp" "$(( t1 - t0 ))" "$runs" "$jobs" <<'PY'
import json, sys
f, target, execs, cov, ft, ncorp, wall, runs, jobs = sys.argv[1:]
try:
    e = json.load(open(f))
except Exception:
    sys.exit(0)
e["coverage"].setdefault("e2_campaigns", []).append(dict(target=target, engine="libFuzzer (cargo-fuzz)", execs=int(execs), edge_coverage=int(cov), features=int(ft), corpus_files=int(ncorp), wall_s=int(wall), runs_per_job=int(runs), jobs=int(jobs), corpora=["deterministic seed corpus + committed inputs", "empty"]))
e["coverage"]["evaluations"] = int(e["coverage"]["evaluations"]) + int(execs)
json.dump(e, open(f, "w"), indent=2)
PY
rc=0
shopt -s nullglob
rm -f "$art"/slow-unit-* 2>/dev/null   # informational only (a unit slower than the reporting threshold), not a verdict
for a in "$art"/timeout-* "$art"/oom-*; do
  echo "INCONCLUSIVE property=$prop fuzz artefact $a (time / memory budget, not a verdict)"; rc=2
done
for a in "$art"/crash-* "$art"/leak-*; do
  out=$("$verif" fuzz-replay "$target" "$a")
  if echo "$out" | grep -q "FUZZ-VIOLATION"; then
    props=$(echo "$out" | grep -o 'props=[A-Z0-9,]*' | head -1 | cut -d= -f2)
    if echo ",$props," | grep -q ",$prop,"; then
      r="$here/replays/$prop-artefact_$target-$(basename "$a").json"
      python3 - "$a" "$r" "$prop" "$target" "$out" <<'PY'
import json, sys
a, r, prop, target, out = sys.argv[1:]
json.dump({"property": prop, "subcheck": "artefact_" + target, "case": {"data": open(a, "rb").read().hex()}, "reason": out[:1500]}, open(r, "w"), indent=1)
PY
      echo "$out" | head -2 | cut -c1-600
      echo "VIOLATION property=$prop replay=$r"
      rc=1; break
    else
      echo "NOTE fuzz artefact $a violates $props, not $prop: run those checks"
    fi
  else
    echo "INCONCLUSIVE property=$prop artefact $a does not reproduce through the replay path (kept for inspection)"; [ $rc -eq 0 ] && rc=2
  fi
done
exit $rc
