#![no_main]
use libfuzzer_sys::fuzz_target;

// E2 target "decode": the semantic oracle lives in vh::fuzzentry::run, shared with the
// proptest engine; a violation aborts so that libFuzzer saves the input.
fuzz_target!(|data: &[u8]| {
  static HOOK: std::sync::Once = std::sync::Once::new();
  HOOK.call_once(vh::engine::install_quiet_panic_hook);
  if let Err((props, why)) = vh::fuzzentry::run("decode", data) {
    eprintln!("FUZZ-VIOLATION props={} {}", props.join(","), why);
    std::process::abort();
  }
});
