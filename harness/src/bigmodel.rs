//! Independent big-integer model of GF(2^128 + 12451): arithmetic, Horner,
//! Lagrange.  Uses num-bigint only; shares no code with `ff`.

use ff::PrimeField;
use num_bigint::BigUint;
use num_traits::{One, Zero};
use star_sharks::{Fp, FpRepr};

pub fn p() -> BigUint {
  (BigUint::one() << 128) + BigUint::from(12451u32)
}

pub fn big_from_le(b: &[u8]) -> BigUint {
  BigUint::from_bytes_le(b)
}

/// 24-byte little-endian encoding of an integer < 2^192
pub fn le24(b: &BigUint) -> [u8; 24] {
  let mut out = [0u8; 24];
  let v = b.to_bytes_le();
  assert!(v.len() <= 24, "integer does not fit 24 bytes");
  out[..v.len()].copy_from_slice(&v);
  out
}

/// element -> integer through the documented encoding
pub fn fe_to_big(f: &Fp) -> BigUint {
  big_from_le(f.to_repr().as_ref())
}

/// integer (< p) -> element through `from_repr`
pub fn big_to_fe(b: &BigUint) -> Option<Fp> {
  Option::from(Fp::from_repr(FpRepr(le24(b))))
}

/// integer -> element without touching the byte decoder: Horner over the
/// integer's 32-bit digits using only `From<u64>`, `+` and `*`.
pub fn big_to_fe_arith(b: &BigUint) -> Fp {
  let digits = b.to_u32_digits();
  let base = Fp::from(1u64 << 32);
  let mut acc = Fp::from(0u64);
  for d in digits.iter().rev() {
    acc = acc * base + Fp::from(*d as u64);
  }
  acc
}

pub fn addm(a: &BigUint, b: &BigUint) -> BigUint {
  (a + b) % p()
}
pub fn subm(a: &BigUint, b: &BigUint) -> BigUint {
  let p = p();
  ((a % &p) + &p - (b % &p)) % &p
}
pub fn negm(a: &BigUint) -> BigUint {
  let p = p();
  (&p - (a % &p)) % &p
}
pub fn mulm(a: &BigUint, b: &BigUint) -> BigUint {
  (a * b) % p()
}
pub fn powm(a: &BigUint, e: &BigUint) -> BigUint {
  a.modpow(e, &p())
}
pub fn invm(a: &BigUint) -> Option<BigUint> {
  if (a % p()).is_zero() {
    None
  } else {
    Some(a.modpow(&(p() - BigUint::from(2u32)), &p()))
  }
}
/// Euler criterion: is `a` a non-zero square?
pub fn is_qr(a: &BigUint) -> bool {
  let p = p();
  let e = (&p - BigUint::one()) >> 1;
  a.modpow(&e, &p).is_one()
}

/// Horner with coefficients from the highest degree to the constant term
pub fn horner_hi_to_lo(coeffs: &[BigUint], x: &BigUint) -> BigUint {
  let p = p();
  let mut acc = BigUint::zero();
  for c in coeffs {
    acc = (acc * x + c) % &p;
  }
  acc
}

/// Lagrange interpolation at 0 for points with pairwise distinct x
pub fn lagrange_at_zero(pts: &[(BigUint, BigUint)]) -> BigUint {
  let p = p();
  let mut acc = BigUint::zero();
  for (i, (xi, yi)) in pts.iter().enumerate() {
    let mut num = BigUint::one();
    let mut den = BigUint::one();
    for (j, (xj, _)) in pts.iter().enumerate() {
      if i != j {
        num = num * xj % &p;
        den = den * subm(xj, xi) % &p;
      }
    }
    let li = num * invm(&den).expect("distinct x") % &p;
    acc = (acc + li * yi) % &p;
  }
  acc
}

/// Full coefficient recovery (constant term first) for points with distinct x.
/// O(t^2) multiplications and t inversions.
pub fn interpolate_coeffs(pts: &[(BigUint, BigUint)]) -> Vec<BigUint> {
  let p = p();
  let t = pts.len();
  // master polynomial M(X) = prod (X - x_j), coefficients low -> high
  let mut m = vec![BigUint::one()];
  for (xj, _) in pts {
    let mut next = vec![BigUint::zero(); m.len() + 1];
    let nx = negm(xj);
    for (k, c) in m.iter().enumerate() {
      next[k] = (&next[k] + c * &nx) % &p;
      next[k + 1] = (&next[k + 1] + c) % &p;
    }
    m = next;
  }
  let mut out = vec![BigUint::zero(); t];
  for (xi, yi) in pts.iter() {
    // q(X) = M(X) / (X - x_i) by synthetic division (high -> low)
    let mut q = vec![BigUint::zero(); t];
    let mut carry = BigUint::zero();
    for k in (0..t).rev() {
      // coefficient of X^k in q is m[k+1] + x_i * (coefficient of X^(k+1) in q)
      carry = (&m[k + 1] + xi * &carry) % &p;
      q[k] = carry.clone();
    }
    // denominator = q(x_i)
    let mut den = BigUint::zero();
    for k in (0..t).rev() {
      den = (den * xi + &q[k]) % &p;
    }
    let w = yi * invm(&den).expect("distinct x") % &p;
    for k in 0..t {
      out[k] = (&out[k] + &q[k] * &w) % &p;
    }
  }
  out
}

/// evaluate coefficients given constant term first
pub fn eval_lo_to_hi(coeffs: &[BigUint], x: &BigUint) -> BigUint {
  let p = p();
  let mut acc = BigUint::zero();
  for c in coeffs.iter().rev() {
    acc = (acc * x + c) % &p;
  }
  acc
}

/// deterministic Miller-Rabin with the first 24 primes as bases (enough here:
/// the harness only uses it to re-verify the factorisation p-1 = 2*q)
pub fn is_probable_prime(n: &BigUint) -> bool {
  let two = BigUint::from(2u32);
  if n < &two {
    return false;
  }
  let small: [u32; 24] = [
    2, 3, 5, 7, 11, 13, 17, 19, 23, 29, 31, 37, 41, 43, 47, 53, 59, 61, 67, 71, 73, 79, 83, 89,
  ];
  for s in small {
    let s = BigUint::from(s);
    if n == &s {
      return true;
    }
    if (n % &s).is_zero() {
      return false;
    }
  }
  let nm1 = n - BigUint::one();
  let mut d = nm1.clone();
  let mut r = 0;
  while (&d % &two).is_zero() {
    d >>= 1;
    r += 1;
  }
  'outer: for s in small {
    let a = BigUint::from(s);
    let mut x = a.modpow(&d, n);
    if x.is_one() || x == nm1 {
      continue;
    }
    for _ in 0..r - 1 {
      x = x.modpow(&two, n);
      if x == nm1 {
        continue 'outer;
      }
    }
    return false;
  }
  true
}
