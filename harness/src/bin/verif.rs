use vh::engine::{install_quiet_panic_hook, replay_file, run_property, Ctx, Tier};

fn usage() -> ! {
  eprintln!("usage: verif check <ID> [--tier quick|thorough] [--sub NAME] | verif replay <ID> <path> | verif list");
  std::process::exit(2)
}

fn main() {
  let args: Vec<String> = std::env::args().collect();
  if args.len() < 2 {
    usage();
  }
  install_quiet_panic_hook();
  match args[1].as_str() {
    "list" => {
      for id in vh::ALL {
        if let Some(p) = vh::property(id) {
          println!("{} {}", id, p.subs.iter().map(|s| s.name).collect::<Vec<_>>().join(" "));
        }
      }
    }
    "check" => {
      if args.len() < 3 {
        usage();
      }
      let id = args[2].clone();
      let mut tier = match std::env::var("VERIF_TIER").ok().as_deref() {
        Some("thorough") => Tier::Thorough,
        _ => Tier::Quick,
      };
      let mut sub: Option<String> = None;
      let mut i = 3;
      while i < args.len() {
        match args[i].as_str() {
          "--tier" => {
            i += 1;
            tier = match args.get(i).map(|s| s.as_str()) {
              Some("quick") => Tier::Quick,
              Some("thorough") => Tier::Thorough,
              _ => usage(),
            };
          }
          "--sub" => {
            i += 1;
            sub = args.get(i).cloned();
          }
          _ => usage(),
        }
        i += 1;
      }
      let seed: u64 = std::env::var("VERIF_SEED")
        .ok()
        .and_then(|s| s.trim().parse::<i128>().ok())
        .map(|v| v as u64)
        .unwrap_or(1);
      let threads: usize = std::env::var("VERIF_THREADS")
        .ok()
        .and_then(|s| s.parse().ok())
        .unwrap_or_else(|| std::thread::available_parallelism().map(|n| n.get()).unwrap_or(8).min(16));
      let p = match vh::property(&id) {
        Some(p) => p,
        None => {
          eprintln!("unknown property {id}");
          std::process::exit(2)
        }
      };
      // watchdog: a budget overrun is inconclusive (exit 2), never a violation
      let limit: u64 = std::env::var("VERIF_WATCHDOG_S")
        .ok()
        .and_then(|s| s.parse().ok())
        .unwrap_or(match tier {
          Tier::Quick => 900,
          Tier::Thorough => 4 * 3600,
        });
      std::thread::spawn(move || {
        std::thread::sleep(std::time::Duration::from_secs(limit));
        println!("INCONCLUSIVE property={id} watchdog after {limit}s");
        std::process::exit(2);
      });
      let ctx = Ctx {
        tier,
        seed,
        threads,
        prop: p.id.to_string(),
      };
      let r = run_property(&p, &ctx, sub.as_deref());
      std::process::exit(r.exit);
    }
    "replay" => {
      if args.len() < 4 {
        usage();
      }
      let p = match vh::property(&args[2]) {
        Some(p) => p,
        None => {
          eprintln!("unknown property {}", args[2]);
          std::process::exit(2)
        }
      };
      match replay_file(&p, &args[3]) {
        Ok(_) => {
          println!("replay {}: property held on this case", args[3]);
        }
        Err(e) => {
          println!("replay {}: {}", args[3], e);
          println!("VIOLATION property={} replay={}", p.id, args[3]);
          std::process::exit(1);
        }
      }
    }
    "seed-corpus" => {
      // verif seed-corpus <target> <dir>: write the deterministic seed inputs of a fuzz target
      if args.len() < 4 {
        usage();
      }
      let _ = std::fs::create_dir_all(&args[3]);
      for (i, s) in vh::fuzzentry::seed_corpus(&args[2]).iter().enumerate() {
        let _ = std::fs::write(format!("{}/seed-{i:03}", args[3]), s);
      }
    }
    "fuzz-replay" => {
      // verif fuzz-replay <target> <file>...: run saved fuzzer inputs through the same entry point
      if args.len() < 4 {
        usage();
      }
      let mut bad = 0;
      for f in &args[3..] {
        let data = std::fs::read(f).unwrap_or_default();
        match vh::fuzzentry::run(&args[2], &data) {
          Ok(()) => println!("OK {f}"),
          Err((props, why)) => {
            bad += 1;
            println!("FUZZ-VIOLATION props={} file={f} {}", props.join(","), vh::engine::truncate(&why, 600));
          }
        }
      }
      std::process::exit(if bad > 0 { 1 } else { 0 });
    }
    _ => usage(),
  }
}
