//! E1: the generated-input engine.
//!
//! A property is a list of sub-checks.  A sub-check is a *case generator*
//! (a proptest strategy, or a complete enumeration of an index range) plus an
//! *oracle* `fn(&Case, &mut Stats) -> Result<(), String>`.  The engine shards
//! the fixed amount of work over the worker threads with per-shard seeds that
//! are a pure function of (property, sub-check, shard, VERIF_SEED), lets
//! proptest shrink a failing case, writes the replay file and the evidence.
//!
//! Nothing here reads the clock or an RNG of its own for a decision; the clock
//! is only used for `wall_s` and for the shrink watchdog.

use proptest::strategy::{BoxedStrategy, Strategy};
use proptest::test_runner::{
  Config, RngAlgorithm, TestCaseError, TestError, TestRng, TestRunner,
};
use serde::de::DeserializeOwned;
use serde::Serialize;
use serde_json::{json, Value};
use std::cell::RefCell;
use std::collections::{BTreeMap, HashSet};
use std::fmt::Debug;
use std::hash::{Hash, Hasher};
use std::sync::atomic::{AtomicBool, Ordering};
use std::time::Instant;

#[derive(Clone, Copy, PartialEq, Eq, Debug)]
pub enum Tier {
  Quick,
  Thorough,
}
impl Tier {
  pub fn name(&self) -> &'static str {
    match self {
      Tier::Quick => "quick",
      Tier::Thorough => "thorough",
    }
  }
  /// pick the quick or the thorough amount of work
  pub fn pick<T>(&self, quick: T, thorough: T) -> T {
    match self {
      Tier::Quick => quick,
      Tier::Thorough => thorough,
    }
  }
}

#[derive(Clone, Debug)]
pub struct Ctx {
  pub tier: Tier,
  pub seed: u64,
  pub threads: usize,
  pub prop: String,
}

/// deterministic 64-bit fingerprint (SipHash with fixed keys)
pub fn fp<T: Hash + ?Sized>(t: &T) -> u64 {
  #[allow(deprecated)]
  let mut h = std::hash::SipHasher::new_with_keys(0x7665_7269_6621, 0x7374_612d_7273);
  t.hash(&mut h);
  h.finish()
}

/// What one run of a sub-check measured.
#[derive(Default, Debug)]
pub struct Stats {
  pub evaluations: u64,
  pub nontrivial: HashSet<u64>,
  pub classes: BTreeMap<String, u64>,
  pub samples: Vec<Value>,
  /// known-finding signature -> (count, first example)
  pub known: BTreeMap<String, (u64, Value)>,
  pub notes: Vec<String>,
  pub frozen: bool,
  pub sample_cap: usize,
  /// model-based checks: model states visited, transitions taken, traces (cases) run against the implementation
  pub states: u64,
  pub transitions: u64,
  pub traces: u64,
}

impl Stats {
  pub fn new() -> Self {
    Stats {
      sample_cap: 3,
      ..Default::default()
    }
  }
  /// count `n` oracle evaluations
  pub fn evals(&mut self, n: u64) {
    if !self.frozen {
      self.evaluations += n;
    }
  }
  pub fn class(&mut self, c: &str) {
    if !self.frozen {
      *self.classes.entry(c.to_string()).or_insert(0) += 1;
    }
  }
  pub fn class_n(&mut self, c: &str, n: u64) {
    if !self.frozen && n > 0 {
      *self.classes.entry(c.to_string()).or_insert(0) += n;
    }
  }
  /// record a case that satisfied the property's non-triviality rule,
  /// identified by a fingerprint so that distinct ones are counted once
  pub fn nontrivial<T: Hash>(&mut self, t: &T) {
    if !self.frozen {
      self.nontrivial.insert(fp(t));
    }
  }
  pub fn sample(&mut self, v: Value) {
    if !self.frozen && self.samples.len() < self.sample_cap {
      self.samples.push(v);
    }
  }
  pub fn want_sample(&self) -> bool {
    !self.frozen && self.samples.len() < self.sample_cap
  }
  pub fn known(&mut self, sig: &str, example: impl FnOnce() -> Value) {
    if self.frozen {
      return;
    }
    match self.known.get_mut(sig) {
      Some(e) => e.0 += 1,
      None => {
        self.known.insert(sig.to_string(), (1, example()));
      }
    }
  }
  pub fn note(&mut self, s: String) {
    if !self.frozen && self.notes.len() < 20 && !self.notes.contains(&s) {
      self.notes.push(s);
    }
  }
  pub fn model(&mut self, states: u64, transitions: u64, traces: u64) {
    if !self.frozen {
      self.states += states;
      self.transitions += transitions;
      self.traces += traces;
    }
  }
  pub fn merge(&mut self, o: Stats) {
    self.evaluations += o.evaluations;
    self.states += o.states;
    self.transitions += o.transitions;
    self.traces += o.traces;
    self.nontrivial.extend(o.nontrivial);
    for (k, v) in o.classes {
      *self.classes.entry(k).or_insert(0) += v;
    }
    for s in o.samples {
      if self.samples.len() < self.sample_cap {
        self.samples.push(s);
      }
    }
    for (k, (n, ex)) in o.known {
      match self.known.get_mut(&k) {
        Some(e) => e.0 += n,
        None => {
          self.known.insert(k, (n, ex));
        }
      }
    }
    for n in o.notes {
      if self.notes.len() < 20 && !self.notes.contains(&n) {
        self.notes.push(n);
      }
    }
  }
}

#[derive(Debug, Clone)]
pub struct Failure {
  pub subcheck: String,
  pub case: Value,
  pub reason: String,
}

pub struct SubOutcome {
  pub stats: Stats,
  pub failure: Option<Failure>,
  pub exhaustive: bool,
}

/// A sub-check: how to run it and how to replay one stored case.
pub struct Sub {
  pub name: &'static str,
  pub run: Box<dyn Fn(&Ctx) -> SubOutcome + Send + Sync>,
  pub replay: Box<dyn Fn(&Value) -> Result<Stats, String> + Send + Sync>,
}

pub struct Property {
  pub id: &'static str,
  pub level: &'static str,
  pub rule: &'static str,
  pub assumptions: Vec<&'static str>,
  pub subs: Vec<Sub>,
}

// ---------------------------------------------------------------------------
// panic capture

thread_local! {
  static LAST_PANIC: RefCell<Option<String>> = RefCell::new(None);
}

/// Install a hook that records the panic message for the current thread and
/// prints nothing (the code under test panics on purpose in C09 runs on an
/// unfixed tree; proptest also catches panics while shrinking).
pub fn install_quiet_panic_hook() {
  std::panic::set_hook(Box::new(|info| {
    let msg = if let Some(s) = info.payload().downcast_ref::<&str>() {
      s.to_string()
    } else if let Some(s) = info.payload().downcast_ref::<String>() {
      s.clone()
    } else {
      "<non-string panic payload>".to_string()
    };
    let loc = info
      .location()
      .map(|l| format!("{}:{}", l.file(), l.line()))
      .unwrap_or_default();
    LAST_PANIC.with(|p| *p.borrow_mut() = Some(format!("{msg} @ {loc}")));
  }));
}

pub fn take_last_panic() -> Option<String> {
  LAST_PANIC.with(|p| p.borrow_mut().take())
}

/// Run `f`, turning an unwind into `Err(message)`.
pub fn no_panic<R>(f: impl FnOnce() -> R) -> Result<R, String> {
  let _ = take_last_panic();
  match std::panic::catch_unwind(std::panic::AssertUnwindSafe(f)) {
    Ok(r) => Ok(r),
    Err(_) => Err(take_last_panic().unwrap_or_else(|| "panic".to_string())),
  }
}

// ---------------------------------------------------------------------------
// seeds

pub fn shard_seed(ctx: &Ctx, sub: &str, shard: usize) -> [u8; 32] {
  let mut out = [0u8; 32];
  for (i, chunk) in out.chunks_mut(8).enumerate() {
    let v = fp(&(ctx.prop.as_str(), sub, shard as u64, ctx.seed, i as u64));
    chunk.copy_from_slice(&v.to_le_bytes());
  }
  out
}

fn split_cases(total: u64, shards: usize) -> Vec<u64> {
  let shards = shards.max(1) as u64;
  (0..shards)
    .map(|i| total / shards + if i < total % shards { 1 } else { 0 })
    .collect()
}

// ---------------------------------------------------------------------------
// proptest-driven sub-check

/// Build a sub-check from a strategy factory and an oracle.
pub fn prop_sub<C, MK, O>(
  name: &'static str,
  cases_quick: u64,
  cases_thorough: u64,
  mk: MK,
  oracle: O,
) -> Sub
where
  C: Debug + Clone + Serialize + DeserializeOwned + 'static,
  MK: Fn(Tier) -> BoxedStrategy<C> + Send + Sync + 'static,
  O: Fn(&C, &mut Stats) -> Result<(), String> + Send + Sync + Clone + 'static,
{
  let oracle2 = oracle.clone();
  Sub {
    name,
    run: Box::new(move |ctx| {
      let total = ctx.tier.pick(cases_quick, cases_thorough);
      run_prop(ctx, name, total, &mk, &oracle)
    }),
    replay: Box::new(move |v| {
      let c: C = serde_json::from_value(v.clone())
        .map_err(|e| format!("replay file does not decode as a case of {name}: {e}"))?;
      let mut st = Stats::new();
      match no_panic(|| oracle2(&c, &mut st)) {
        Ok(Ok(())) => Ok(st),
        Ok(Err(e)) => Err(e),
        Err(p) => Err(format!("panic: {p}")),
      }
    }),
  }
}

pub fn run_prop<C, MK, O>(
  ctx: &Ctx,
  name: &'static str,
  total: u64,
  mk: &MK,
  oracle: &O,
) -> SubOutcome
where
  C: Debug + Clone + Serialize + 'static,
  MK: Fn(Tier) -> BoxedStrategy<C> + Send + Sync,
  O: Fn(&C, &mut Stats) -> Result<(), String> + Send + Sync,
{
  let per = split_cases(total, ctx.threads);
  let abort = AtomicBool::new(false);
  let results: Vec<(Stats, Option<Failure>)> = std::thread::scope(|s| {
    let handles: Vec<_> = per
      .iter()
      .enumerate()
      .map(|(shard, &n)| {
        let abort = &abort;
        s.spawn(move || {
          let stats = RefCell::new(Stats::new());
          if n == 0 {
            return (stats.into_inner(), None);
          }
          let cfg = Config {
            cases: n as u32,
            failure_persistence: None,
            max_shrink_iters: 400,
            max_local_rejects: 1_000_000,
            max_global_rejects: 1_000_000,
            ..Config::default()
          };
          let rng = TestRng::from_seed(RngAlgorithm::ChaCha, &shard_seed(ctx, name, shard));
          let mut runner = TestRunner::new_with_rng(cfg, rng);
          let strat = mk(ctx.tier);
          let journal: Option<String> = std::env::var("VERIF_JOURNAL").ok().map(|_| format!("{}/replays/{}-journal-{}.json", verif_root(), ctx.prop, shard));
          let froze_at: RefCell<Option<Instant>> = RefCell::new(None);
          let res = runner.run(&strat, |c| {
            // another shard already failed: finish quickly
            if abort.load(Ordering::Relaxed) && froze_at.borrow().is_none() {
              return Ok(());
            }
            // shrink watchdog: after 90 s of shrinking accept what we have
            if let Some(t0) = *froze_at.borrow() {
              if t0.elapsed().as_secs() > 90 {
                return Ok(());
              }
            }
            let mut st = stats.borrow_mut();
            st.evals(1);
            if let Some(jp) = &journal {
              // an abort (not an unwind) cannot be caught: leave the case behind for run.sh
              if let Ok(v) = serde_json::to_value(&c) {
                let _ = std::fs::write(jp, json!({"property": ctx.prop, "subcheck": name, "case": v, "reason": "the process died (abort / stack overflow / segfault) while this case was running"}).to_string());
              }
            }
            let r = match no_panic(|| oracle(&c, &mut st)) {
              Ok(r) => r,
              Err(p) => Err(format!("panic: {p}")),
            };
            match r {
              Ok(()) => Ok(()),
              Err(e) => {
                if !st.frozen {
                  st.frozen = true;
                  *froze_at.borrow_mut() = Some(Instant::now());
                  abort.store(true, Ordering::Relaxed);
                }
                Err(TestCaseError::fail(e))
              }
            }
          });
          let failure = match res {
            Ok(()) => None,
            Err(TestError::Fail(reason, value)) => Some(Failure {
              subcheck: name.to_string(),
              case: serde_json::to_value(&value).unwrap_or(Value::Null),
              reason: reason.message().to_string(),
            }),
            Err(TestError::Abort(reason)) => Some(Failure {
              subcheck: name.to_string(),
              case: Value::Null,
              reason: format!("generator aborted (harness problem): {}", reason.message()),
            }),
          };
          (stats.into_inner(), failure)
        })
      })
      .collect();
    handles.into_iter().map(|h| h.join().expect("shard thread")).collect()
  });
  let mut stats = Stats::new();
  let mut failure = None;
  for (st, f) in results {
    stats.merge(st);
    if failure.is_none() {
      failure = f;
    }
  }
  SubOutcome {
    stats,
    failure,
    exhaustive: false,
  }
}

// ---------------------------------------------------------------------------
// complete enumeration of an index range

/// Build a sub-check that enumerates `count(tier)` indices completely; `decode`
/// turns an index into a case (pure), the oracle judges it.
pub fn enum_sub<C, N, D, O>(name: &'static str, count: N, decode: D, oracle: O) -> Sub
where
  C: Debug + Clone + Serialize + DeserializeOwned + 'static,
  N: Fn(Tier) -> u64 + Send + Sync + 'static,
  D: Fn(Tier, u64) -> C + Send + Sync + 'static,
  O: Fn(&C, &mut Stats) -> Result<(), String> + Send + Sync + Clone + 'static,
{
  let oracle2 = oracle.clone();
  Sub {
    name,
    run: Box::new(move |ctx| {
      let n = count(ctx.tier);
      let abort = AtomicBool::new(false);
      let threads = ctx.threads.max(1) as u64;
      let results: Vec<(Stats, Option<Failure>)> = std::thread::scope(|s| {
        let hs: Vec<_> = (0..threads)
          .map(|t| {
            let abort = &abort;
            let decode = &decode;
            let oracle = &oracle;
            let tier = ctx.tier;
            s.spawn(move || {
              let mut st = Stats::new();
              let mut i = t;
              while i < n {
                if abort.load(Ordering::Relaxed) {
                  break;
                }
                let c = decode(tier, i);
                st.evals(1);
                let r = match no_panic(|| oracle(&c, &mut st)) {
                  Ok(r) => r,
                  Err(p) => Err(format!("panic: {p}")),
                };
                if let Err(e) = r {
                  abort.store(true, Ordering::Relaxed);
                  return (
                    st,
                    Some(Failure {
                      subcheck: name.to_string(),
                      case: serde_json::to_value(&c).unwrap_or(Value::Null),
                      reason: e,
                    }),
                  );
                }
                i += threads;
              }
              (st, None)
            })
          })
          .collect();
        hs.into_iter().map(|h| h.join().expect("enum thread")).collect()
      });
      let mut stats = Stats::new();
      let mut failure = None;
      for (st, f) in results {
        stats.merge(st);
        if failure.is_none() {
          failure = f;
        }
      }
      let exhaustive = failure.is_none() && n > 0;
      SubOutcome {
        stats,
        failure,
        exhaustive,
      }
    }),
    replay: Box::new(move |v| {
      let c: C = serde_json::from_value(v.clone())
        .map_err(|e| format!("replay file does not decode as a case of {name}: {e}"))?;
      let mut st = Stats::new();
      match no_panic(|| oracle2(&c, &mut st)) {
        Ok(Ok(())) => Ok(st),
        Ok(Err(e)) => Err(e),
        Err(p) => Err(format!("panic: {p}")),
      }
    }),
  }
}

// ---------------------------------------------------------------------------
// running a property

pub struct KnownFindings {
  /// (property, signature) -> description
  pub known: BTreeMap<(String, String), String>,
}

impl KnownFindings {
  pub fn load(path: &str) -> KnownFindings {
    let mut known = BTreeMap::new();
    if let Ok(s) = std::fs::read_to_string(path) {
      if let Ok(v) = serde_json::from_str::<Value>(&s) {
        if let Some(arr) = v.get("known").and_then(|k| k.as_array()) {
          for k in arr {
            let p = k.get("property").and_then(|x| x.as_str()).unwrap_or("");
            let sig = k.get("signature").and_then(|x| x.as_str()).unwrap_or("");
            let d = k.get("what_fails").and_then(|x| x.as_str()).unwrap_or("");
            known.insert((p.to_string(), sig.to_string()), d.to_string());
          }
        }
      }
    }
    KnownFindings { known }
  }
}

pub struct RunResult {
  pub exit: i32,
}

fn verif_root() -> String {
  std::env::var("VERIF_ROOT").unwrap_or_else(|_| "/verif".to_string())
}

fn write_replay(prop: &str, f: &Failure) -> String {
  let dir = format!("{}/replays", verif_root());
  let _ = std::fs::create_dir_all(&dir);
  let h = fp(&(f.subcheck.as_str(), f.case.to_string()));
  let path = format!("{dir}/{prop}-{}-{h:016x}.json", f.subcheck);
  let body = json!({
    "property": prop,
    "subcheck": f.subcheck,
    "case": f.case,
    "reason": f.reason,
  });
  let _ = std::fs::write(&path, serde_json::to_string_pretty(&body).unwrap());
  path
}

pub fn replay_file(p: &Property, path: &str) -> Result<Stats, String> {
  let s = std::fs::read_to_string(path).map_err(|e| format!("cannot read {path}: {e}"))?;
  let v: Value = serde_json::from_str(&s).map_err(|e| format!("{path}: not JSON: {e}"))?;
  let sub = v
    .get("subcheck")
    .and_then(|x| x.as_str())
    .ok_or_else(|| format!("{path}: no subcheck"))?;
  let case = v.get("case").cloned().unwrap_or(Value::Null);
  let s = p
    .subs
    .iter()
    .find(|s| s.name == sub)
    .ok_or_else(|| format!("{path}: unknown sub-check {sub} for {}", p.id))?;
  (s.replay)(&case)
}

pub fn run_property(p: &Property, ctx: &Ctx, only_sub: Option<&str>) -> RunResult {
  let t0 = Instant::now();
  let kf = KnownFindings::load(&format!("{}/known_findings.json", verif_root()));
  let mut total = Stats::new();
  total.sample_cap = 12;
  let mut per_sub: BTreeMap<String, Value> = BTreeMap::new();
  let mut violation: Option<(Failure, String)> = None;
  let mut all_exhaustive = true;
  let mut any_exhaustive = Vec::new();

  // 1. replay tier: every committed regression file for this property
  let reg_dir = format!("{}/regressions/{}", verif_root(), p.id);
  let mut replayed = 0u64;
  let mut files: Vec<_> = std::fs::read_dir(&reg_dir)
    .map(|rd| {
      rd.filter_map(|e| e.ok())
        .map(|e| e.path())
        .filter(|p| p.extension().map(|e| e == "json").unwrap_or(false))
        .collect()
    })
    .unwrap_or_default();
  files.sort();
  if only_sub.is_none() {
    for f in &files {
      let path = f.to_string_lossy().to_string();
      replayed += 1;
      match replay_file(p, &path) {
        Ok(st) => {
          // known findings met during replay are handled like any other
          let mut st = st;
          st.evaluations = st.evaluations.max(1);
          st.samples.clear();
          total.merge(st);
        }
        Err(reason) => {
          if violation.is_none() {
            violation = Some((
              Failure {
                subcheck: "regression".into(),
                case: json!({ "file": path }),
                reason,
              },
              path.clone(),
            ));
          }
        }
      }
    }
  }

  // 2. the sub-checks
  if violation.is_none() {
    for sub in &p.subs {
      if let Some(o) = only_sub {
        if o != sub.name {
          continue;
        }
      }
      let ts = Instant::now();
      let out = (sub.run)(ctx);
      let mut st = out.stats;
      per_sub.insert(
        sub.name.to_string(),
        json!({
          "evaluations": st.evaluations,
          "distinct_nontrivial": st.nontrivial.len(),
          "classes": st.classes,
          "exhaustive": out.exhaustive,
          "wall_s": (ts.elapsed().as_millis() as f64) / 1000.0,
        }),
      );
      if out.exhaustive {
        any_exhaustive.push(sub.name);
      } else {
        all_exhaustive = false;
      }
      // prefix classes and fingerprints with the sub-check so they stay apart
      let classes = std::mem::take(&mut st.classes);
      for (k, v) in classes {
        st.classes.insert(format!("{}/{}", sub.name, k), v);
      }
      let nt = std::mem::take(&mut st.nontrivial);
      st.nontrivial = nt.into_iter().map(|h| fp(&(sub.name, h))).collect();
      let samples = std::mem::take(&mut st.samples);
      st.samples = samples
        .into_iter()
        .map(|s| json!({ "subcheck": sub.name, "case": s }))
        .collect();
      total.merge(st);
      if let Some(f) = out.failure {
        let path = write_replay(p.id, &f);
        violation = Some((f, path));
        break;
      }
    }
  }

  // 3. known findings: listed ones are announced, unlisted ones are violations
  let mut known_lines = Vec::new();
  let mut excluded = BTreeMap::new();
  for (sig, (n, ex)) in &total.known {
    excluded.insert(sig.clone(), *n);
    match kf.known.get(&(p.id.to_string(), sig.clone())) {
      Some(desc) => known_lines.push(format!(
        "KNOWN-FINDING: property={} signature={} occurrences={} {}",
        p.id, sig, n, desc
      )),
      None => {
        if violation.is_none() {
          let f = Failure {
            subcheck: format!("unlisted:{sig}"),
            case: ex.clone(),
            reason: format!("finding with signature {sig} is not listed in known_findings.json"),
          };
          let path = write_replay(p.id, &f);
          violation = Some((f, path));
        }
      }
    }
  }

  let wall = (t0.elapsed().as_millis() as f64) / 1000.0;
  let nviol = if violation.is_some() { 1 } else { 0 };
  let mut coverage = json!({
    "evaluations": total.evaluations,
    "distinct_nontrivial": total.nontrivial.len(),
    "rule": p.rule,
    "samples": total.samples,
    "classes": total.classes,
    "subchecks": per_sub,
    "regressions_replayed": replayed,
    "known_findings_excluded": excluded,
    "exhaustive_subchecks": any_exhaustive,
    "notes": total.notes,
    "threads": ctx.threads,
  });
  if total.states > 0 && total.transitions > 0 {
    coverage["states"] = json!(total.states);
    coverage["transitions"] = json!(total.transitions);
    coverage["traces_validated_against_impl"] = json!(total.traces);
  }
  if all_exhaustive && !p.subs.is_empty() && only_sub.is_none() {
    coverage["exhaustive"] = json!(true);
  }
  if let Some((f, path)) = &violation {
    coverage["violation"] = json!({ "subcheck": f.subcheck, "reason": f.reason, "replay": path });
  }
  let evidence = json!({
    "property_id": p.id,
    "tier": ctx.tier.name(),
    "seed": ctx.seed,
    "level": p.level,
    "coverage": coverage,
    "assumptions": p.assumptions,
    "wall_s": wall,
    "violations": nviol,
  });
  if only_sub.is_none() || std::env::var("VERIF_WRITE_EVIDENCE").is_ok() {
    let dir = format!("{}/evidence", verif_root());
    let _ = std::fs::create_dir_all(&dir);
    let _ = std::fs::write(
      format!("{dir}/{}.json", p.id),
      serde_json::to_string_pretty(&evidence).unwrap() + "\n",
    );
  }

  if std::env::var("VERIF_JOURNAL").is_ok() {
    for sh in 0..64 {
      let _ = std::fs::remove_file(format!("{}/replays/{}-journal-{}.json", verif_root(), p.id, sh));
    }
  }
  for l in &known_lines {
    println!("{l}");
  }
  println!(
    "{} tier={} seed={} evaluations={} distinct_nontrivial={} wall_s={:.1}",
    p.id,
    ctx.tier.name(),
    ctx.seed,
    total.evaluations,
    total.nontrivial.len(),
    wall
  );
  match violation {
    Some((f, path)) => {
      println!("  sub-check {}: {}", f.subcheck, truncate(&f.reason, 1500));
      println!("VIOLATION property={} replay={}", p.id, path);
      RunResult { exit: 1 }
    }
    None => RunResult { exit: 0 },
  }
}

pub fn truncate(s: &str, n: usize) -> String {
  if s.len() <= n {
    s.to_string()
  } else {
    let mut end = n;
    while !s.is_char_boundary(end) {
      end -= 1;
    }
    format!("{}… ({} bytes)", &s[..end], s.len())
  }
}

/// map a generated 16-bit index monotonically onto 0..len (shrinks towards 0)
pub fn idx(i: u16, len: usize) -> usize {
  if len == 0 {
    0
  } else {
    ((i as usize) * len) >> 16
  }
}

/// Boxed-strategy helper
pub fn bx<S: Strategy + 'static>(s: S) -> BoxedStrategy<S::Value> {
  s.boxed()
}
