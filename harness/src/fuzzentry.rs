//! E2 entry points: each libFuzzer target is one function `run(target, bytes)`
//! that decodes the bytes into structured arguments and evaluates the SAME
//! oracles as the proptest engine.  A failure names the properties it violates.

use crate::engine::*;
use crate::gens::Hx;
use crate::props::{c07, c08, c09, c10, c11, c14, c15};
use arbitrary::Unstructured;

pub const TARGETS: [(&str, &[&str]); 6] = [
  ("decode", &["C08", "C09"]),
  ("recover", &["C05", "C09"]),
  ("ppoprf", &["C09", "C15"]),
  ("wasm", &["C09"]),
  ("server", &["C10", "C11", "C14"]),
  ("field", &["C07"]),
];

pub type Failure = (Vec<&'static str>, String);

fn tag(props: &[&'static str], r: Result<(), String>) -> Result<(), Failure> {
  r.map_err(|e| {
    let mut p: Vec<&'static str> = props.to_vec();
    // a panic inside a consumer of foreign data is always also a C09 violation
    if e.contains("panicked") && !p.contains(&"C09") {
      p.push("C09");
    }
    (p, e)
  })
}

pub fn run(target: &str, data: &[u8]) -> Result<(), Failure> {
  let mut st = Stats::new();
  let st = &mut st;
  match target {
    "decode" => {
      for d in 0..4 {
        tag(&["C08"], c08::judge(d, data, "fuzz", st))?;
      }
      tag(&["C08"], c08::helpers(data, st))?;
      tag(&["C09"], c09::decoders_on(data, st))
    }
    "recover" => recover(data, st),
    "ppoprf" => {
      if data.is_empty() {
        return Ok(());
      }
      let body = &data[1..];
      match data[0] % 3 {
        0 => {
          tag(&["C15"], c15::judge_pk_with_trailing(body, st))?;
          tag(&["C09"], c09::ppoprf_bytes(body, st))
        }
        1 => {
          tag(&["C15"], c15::judge_proof_lenient(body, st))?;
          tag(&["C09"], c09::ppoprf_bytes(body, st))
        }
        _ => match std::str::from_utf8(body) {
          Ok(t) => tag(&["C09"], c09::json_text(t, st)),
          Err(_) => Ok(()),
        },
      }
    }
    "wasm" => {
      let text = String::from_utf8_lossy(data);
      let (epoch, shares) = match text.find('\u{1}') {
        Some(i) => (&text[..i], &text[i + 1..]),
        None => ("", &text[..]),
      };
      tag(
        &["C09"],
        no_panic(|| star_wasm::group_shares(shares, epoch))
          .map(|_| ())
          .map_err(|p| format!("star_wasm::group_shares panicked ({p}) on {:?} epoch {:?}", shares, epoch)),
      )
    }
    "server" => server(data, st),
    "field" => {
      if data.len() < 72 {
        return Ok(());
      }
      let p = crate::bigmodel::p();
      let a = crate::bigmodel::big_from_le(&data[..24]) % &p;
      let b = crate::bigmodel::big_from_le(&data[24..48]) % &p;
      let e = crate::bigmodel::big_from_le(&data[48..72]);
      tag(&["C07"], c07::binary(&a, &b, st))?;
      tag(&["C07"], c07::unary(&a, &[e], st))?;
      tag(&["C07"], c07::dec_oracle(&c07::DecCase { s: Hx(data[..24].to_vec()) }, st))?;
      tag(&["C07"], c07::dec_oracle(&c07::DecCase { s: Hx(data[48..72].to_vec()) }, st))
    }
    _ => Err((vec![], format!("unknown fuzz target {target}"))),
  }
}

/// input: n:u8, then n x (len:u16le, share bytes).  Oracle: no panic; and if
/// recovery succeeds, the recovered sharing re-shares to something identical to
/// the FIRST share outside its evaluation point (so the returned message is the
/// one shared with the first share, for any byte strings whatsoever).
fn recover(data: &[u8], st: &mut Stats) -> Result<(), Failure> {
  let mut shares: Vec<Vec<u8>> = Vec::new();
  if data.is_empty() {
    return Ok(());
  }
  let n = (data[0] % 8) as usize;
  let mut off = 1;
  for _ in 0..n {
    if off + 2 > data.len() {
      break;
    }
    let l = u16::from_le_bytes([data[off], data[off + 1]]) as usize;
    off += 2;
    let end = (off + l).min(data.len());
    shares.push(data[off..end].to_vec());
    off = end;
  }
  let desc = || format!("shares {:?}", shares.iter().map(hex::encode).collect::<Vec<_>>());
  let dec: Vec<adss::Share> = match no_panic(|| shares.iter().filter_map(|s| adss::Share::from_bytes(s)).collect::<Vec<_>>()) {
    Ok(v) => v,
    Err(p) => return Err((vec!["C09", "C08"], format!("adss::Share::from_bytes panicked ({p}) on {}", desc()))),
  };
  st.evals(1);
  let r = no_panic(|| adss::recover(&dec)).map_err(|p| (vec!["C09"], format!("adss::recover panicked ({p}) on {}", desc())))?;
  // threshold bound: re-sharing materialises a polynomial of degree t-1
  if let Ok(c) = r {
    let first = dec[0].to_bytes();
    let t = crate::layout::share_threshold(&first).unwrap_or(0);
    if t <= 4096 {
      let again = c.clone().share().map_err(|e| (vec!["C05"], format!("recovered sharing cannot be shared again: {e}")))?.to_bytes();
      let strip = |b: &[u8]| -> Option<Vec<u8>> {
        let f = crate::layout::share_fields(b)?;
        let mut v = b[..f.len_s.start].to_vec();
        v.extend_from_slice(&b[f.s.end..]);
        Some(v)
      };
      if strip(&first) != strip(&again) {
        return Err((
          vec!["C05"],
          format!(
            "recovery returned message {} but the first share is not a share of that sharing (threshold / C / D / J differ from a fresh share of the recovered sharing): {}",
            hex::encode(c.get_message()),
            desc()
          ),
        ));
      }
    }
  }
  // the star wrapper and the inner Shamir layer on the same strings
  let sdec: Vec<sta_rs::Share> = shares.iter().filter_map(|s| sta_rs::Share::from_bytes(s)).collect();
  no_panic(|| sta_rs::share_recover(&sdec).is_ok()).map_err(|p| (vec!["C09"], format!("share_recover panicked ({p}) on {}", desc())))?;
  Ok(())
}

/// bytes -> server history (C14 model) and key history (C10 / C11 invariants)
fn server(data: &[u8], st: &mut Stats) -> Result<(), Failure> {
  let mut u = Unstructured::new(data);
  let nreg = 1 + u.int_in_range(0..=5u8).unwrap_or(0) as usize;
  let mut mds: Vec<u8> = Vec::new();
  for _ in 0..nreg {
    let x: u8 = u.arbitrary().unwrap_or(0);
    if !mds.contains(&x) {
      mds.push(x);
    }
  }
  let other_mds = vec![mds[0].wrapping_add(9), 77];
  let mut ops14 = Vec::new();
  let mut ops10 = Vec::new();
  let nops = u.int_in_range(0..=40u8).unwrap_or(0);
  for _ in 0..nops {
    let k: u8 = u.arbitrary().unwrap_or(0);
    let a: u8 = u.arbitrary().unwrap_or(0);
    let b: u8 = u.arbitrary().unwrap_or(0);
    let h = (a as u16) << 8;
    let tg = match b % 4 {
      0 | 1 => c14::Tag::Registered((b as u16) << 8),
      2 => c14::Tag::Adjacent((b as u16) << 8, b & 0x80 != 0),
      _ => c14::Tag::Raw(b),
    };
    ops14.push(match k % 8 {
      0 | 1 | 2 => c14::Op::Eval { h, tag: tg, point: a % 4, verifiable: k & 0x80 != 0 },
      3 | 4 => c14::Op::Puncture { h, tag: tg },
      5 => c14::Op::Clone { h },
      6 => c14::Op::ExportImport { h },
      _ => c14::Op::Puncture { h, tag: c14::Tag::Raw(b) },
    });
    ops10.push(match k % 8 {
      0 | 1 => c10::Op::Puncture(b),
      2 | 3 => c10::Op::PunctureSibling(a % 8),
      4 => c10::Op::PunctureNear(a, b),
      5 => c10::Op::Eval(b),
      6 => c10::Op::RePuncture((a as u16) << 8),
      _ => c10::Op::FinishSubtree(1 + a % 4, b & 1 == 0),
    });
  }
  let case14 = c14::Case { mds, other_mds, ops: ops14 };
  tag(&["C14"], c14::oracle(&case14, st))?;
  let h = c10::History { ops: ops10, complete: None };
  tag(&["C10"], c10::history_oracle(c10::W10)(&h, st))?;
  tag(&["C11"], c10::history_oracle(c11::W11)(&h, st))
}

/// deterministic seed corpus for a target (valid encodings of several shapes)
pub fn seed_corpus(target: &str) -> Vec<Vec<u8>> {
  let mut out: Vec<Vec<u8>> = Vec::new();
  match target {
    "decode" => {
      for (t, m, r) in [(1u32, &b""[..], &b""[..]), (2, b"m", b"r"), (3, b"measurement", b"coins-coins-coins")] {
        if let Ok(s) = adss::Commune::new(t, m.to_vec(), r.to_vec(), None).share() {
          out.push(s.to_bytes());
        }
      }
      let g = crate::starx::mg(b"hello world", 2, b"epoch");
      let rnd = crate::starx::local_rnd(&g);
      for aux in [None, Some(&b"aux"[..])] {
        if let Ok(m) = crate::starx::report(&g, &rnd, aux) {
          out.push(m.to_bytes());
        }
      }
      out.push(vec![0u8; 24]);
      out.push(vec![]);
    }
    "recover" => {
      for (t, n) in [(1u32, 1usize), (2, 2), (2, 3), (3, 4)] {
        let mut v = vec![n as u8];
        for _ in 0..n {
          if let Ok(s) = adss::Commune::new(t, b"msg".to_vec(), b"coins".to_vec(), None).share() {
            let b = s.to_bytes();
            v.extend_from_slice(&(b.len() as u16).to_le_bytes());
            v.extend_from_slice(&b);
          }
        }
        out.push(v);
      }
    }
    "ppoprf" => {
      for mds in [vec![], vec![0u8], vec![0, 1, 255], (0..20u8).collect::<Vec<_>>()] {
        if let Ok(s) = ppoprf::ppoprf::Server::new(mds.clone()) {
          if let Ok(b) = s.get_public_key().serialize_to_bincode() {
            let mut v = vec![0u8];
            v.extend_from_slice(&b);
            out.push(v);
          }
          if let Some(md) = mds.first() {
            let (bl, _) = ppoprf::ppoprf::Client::blind(b"x");
            for verifiable in [true, false] {
              if let Ok(ev) = s.eval(&bl, *md, verifiable) {
                if let Some(p) = &ev.proof {
                  let mut v = vec![1u8];
                  v.extend_from_slice(&p.serialize_to_bincode().unwrap_or_default());
                  out.push(v);
                }
                let mut v = vec![2u8];
                v.extend_from_slice(serde_json::to_string(&ev).unwrap_or_default().as_bytes());
                out.push(v);
              }
            }
            let mut v = vec![2u8];
            v.extend_from_slice(serde_json::to_string(&bl).unwrap_or_default().as_bytes());
            out.push(v);
          }
        }
      }
    }
    "wasm" => {
      for t in [1u32, 2] {
        let mut lines = Vec::new();
        for _ in 0..t + 1 {
          let o = star_wasm::create_share(b"m", t, "ep");
          if let Ok(v) = serde_json::from_str::<serde_json::Value>(&o) {
            lines.push(v["share"].as_str().unwrap_or("").to_string());
          }
        }
        out.push(format!("ep\u{1}{}", lines.join("\n")).into_bytes());
      }
      // authentic ADSS sharings of messages a STAR client never shares (0, 5, 31, 33 bytes)
      {
        use base64::{engine::Engine as _, prelude::BASE64_STANDARD};
        for len in [0usize, 5, 31, 33] {
          let mut lines = Vec::new();
          for _ in 0..3 {
            if let Ok(sh) = adss::Commune::new(2, vec![7u8; len], vec![9u8; 32], None).share() {
              lines.push(BASE64_STANDARD.encode(sh.to_bytes()));
            }
          }
          out.push(format!("ep\u{1}{}", lines.join("\n")).into_bytes());
        }
      }
      out.push(b"\x01".to_vec());
    }
    "server" => {
      out.push(vec![2, 0, 1, 255, 12, 3, 0, 0, 0, 1, 0, 6, 0, 0, 3, 0, 64, 0, 1, 0, 5, 0, 0, 3, 0, 1, 6, 1, 0, 0, 2, 2]);
      out.push((0..120u8).collect());
    }
    "field" => {
      out.push(vec![0u8; 72]);
      out.push(vec![0xFFu8; 72]);
      let mut v = crate::bigmodel::le24(&(crate::bigmodel::p() - 1u32)).to_vec();
      v.extend_from_slice(&crate::bigmodel::le24(&crate::bigmodel::p()));
      v.extend_from_slice(&[1u8; 24]);
      out.push(v);
    }
    _ => {}
  }
  out
}

// ---------------------------------------------------------------------------
// the same entry points as E1 sub-checks (random / mutated-seed bytes), which
// is also the replay path for libFuzzer artefacts

use proptest::prelude::*;
use serde::{Deserialize, Serialize};

#[derive(Clone, Debug, Serialize, Deserialize)]
pub struct FuzzCase {
  pub data: Hx,
}

#[derive(Clone, Debug, Serialize, Deserialize)]
pub struct SeedMut {
  pub seed_idx: u16,
  pub patches: Vec<(u16, u8)>,
  pub cut: Option<u16>,
  pub raw: Option<Hx>,
}

pub fn fuzz_sub(name: &'static str, target: &'static str, prop: &'static str, quick: u64, thorough: u64) -> Sub {
  prop_sub(
    name,
    quick,
    thorough,
    move |_t| {
      (
        any::<u16>(),
        proptest::collection::vec((any::<u16>(), any::<u8>()), 0..6),
        proptest::option::weighted(0.2, any::<u16>()),
        proptest::option::weighted(0.25, crate::gens::bytes(300)),
      )
        .prop_map(|(seed_idx, patches, cut, raw)| SeedMut { seed_idx, patches, cut, raw })
        .boxed()
    },
    move |c: &SeedMut, st: &mut Stats| {
      let data = match &c.raw {
        Some(r) => r.0.clone(),
        None => {
          let seeds = seed_corpus(target);
          if seeds.is_empty() {
            return Ok(());
          }
          let mut d = seeds[idx(c.seed_idx, seeds.len())].clone();
          for (o, v) in &c.patches {
            if !d.is_empty() {
              let i = idx(*o, d.len());
              d[i] = *v;
            }
          }
          if let Some(k) = c.cut {
            let l = idx(k, d.len() + 1);
            d.truncate(l);
          }
          d
        }
      };
      st.nontrivial(&data);
      match run(target, &data) {
        Ok(()) => Ok(()),
        Err((props, why)) => {
          if props.contains(&prop) {
            Err(format!("[fuzz target {target}, input {}] {why}", hex::encode(&data)))
          } else {
            st.note(format!("fuzz target {target}: input violates {props:?}, not {prop}: {}", truncate(&why, 200)));
            Ok(())
          }
        }
      }
    },
  )
}

/// replay sub-check for saved libFuzzer inputs: case = {"data": hex}
pub fn artefact_sub(name: &'static str, target: &'static str, prop: &'static str) -> Sub {
  enum_sub(
    name,
    |_| 0,
    |_, _| FuzzCase { data: Hx(vec![]) },
    move |c: &FuzzCase, _st: &mut Stats| match run(target, &c.data) {
      Ok(()) => Ok(()),
      Err((props, why)) => {
        if props.contains(&prop) {
          Err(format!("[fuzz target {target}] {why}"))
        } else {
          Ok(())
        }
      }
    },
  )
}
