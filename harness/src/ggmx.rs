//! Explorer for the puncturable PRF shared by C10 (functional behaviour) and
//! C11 (what the retained key material contains).

use crate::engine::Stats;
use ppoprf::ggm::GGM;
use ppoprf::PPRF;
use std::collections::{BTreeSet, HashMap};

pub type Val = [u8; 32];

pub fn eval(g: &GGM, x: u8) -> Result<Val, String> {
  // the output buffer is deliberately not clean: its previous contents must not matter
  let mut out = [x ^ 0xA5; 32];
  g.eval(&[x], &mut out).map(|_| out).map_err(|e| e.to_string())
}

/// the 256 values right after setup; also asserts they are pairwise distinct
pub fn original(g: &GGM) -> Result<Vec<Val>, String> {
  let mut v = Vec::with_capacity(256);
  for x in 0..=255u8 {
    v.push(eval(g, x).map_err(|e| format!("fresh key refuses input {x}: {e}"))?);
  }
  let set: BTreeSet<&Val> = v.iter().collect();
  if set.len() != 256 {
    return Err("two distinct inputs evaluate to the same value under a fresh key".into());
  }
  Ok(v)
}

#[derive(Clone, Copy, PartialEq, Eq)]
pub struct Which {
  pub c10: bool,
  pub c11: bool,
}

/// A key together with the reference model: original values + punctured set.
#[derive(Clone)]
pub struct Tracked {
  pub g: GGM,
  pub punctured: BTreeSet<u8>,
  /// the generators re-implemented in the harness, present only when they were shown
  /// (on the fresh key) to reproduce the library's values; enables the derivability oracle
  pub closure: Option<Prg>,
}

/// Re-implementation of the length-doubling generators from their (static) keys.
/// It pins the generator's Strobe transcript, so it is used only behind a sanity
/// guard: if it does not reproduce the library's own values on the fresh key the
/// derivability oracle is skipped (and the evidence says so) instead of raising alarms.
#[derive(Clone)]
pub struct Prg {
  keys: Vec<[u8; 32]>,
}

impl Prg {
  pub fn step(&self, which: usize, input: &[u8]) -> Val {
    use strobe_rs::{SecParam, Strobe};
    let mut t = Strobe::new(b"ggm eval (ppoprf)", SecParam::B128);
    t.key(&self.keys[which], false);
    t.ad(input, false);
    t.meta_ad(&32u32.to_le_bytes(), false);
    let mut out = [0u8; 32];
    t.prf(&mut out, false);
    out
  }

  /// every value derivable from `seed` by walks of exactly `len` generator steps
  pub fn level(&self, seeds: &[Val]) -> Vec<Val> {
    let mut out = Vec::with_capacity(seeds.len() * self.keys.len());
    for s in seeds {
      for w in 0..self.keys.len() {
        out.push(self.step(w, s));
      }
    }
    out
  }

  /// build it for a FRESH key and check it against the library's values
  pub fn for_fresh_key(g: &GGM, orig: &[Val]) -> Option<Prg> {
    let keys = g.verif_prg_keys();
    if keys.len() != 2 {
      return None;
    }
    let prg = Prg { keys };
    for (covered, depth, seed) in g.verif_retained_nodes() {
      if seed.len() != 32 || depth > 8 {
        return None;
      }
      let mut s = [0u8; 32];
      s.copy_from_slice(&seed);
      let mut lvl = vec![s];
      for _ in depth..8 {
        lvl = prg.level(&lvl);
      }
      let got: BTreeSet<Val> = lvl.into_iter().collect();
      let want: BTreeSet<Val> = covered.iter().map(|x| orig[*x as usize]).collect();
      if got != want {
        return None;
      }
    }
    Some(prg)
  }
}

/// C11 derivability oracle: no value of a punctured input is reachable from any
/// retained seed by ANY walk of up to 8 generator steps (whatever the node's label says).
pub fn check_derivability(t: &Tracked, orig: &[Val], st: &mut Stats) -> Result<(), String> {
  let prg = match &t.closure {
    Some(p) => p,
    None => {
      st.note("derivability oracle skipped: the harness's re-implementation of the generators does not reproduce the library's values on a fresh key".into());
      return Ok(());
    }
  };
  if t.punctured.is_empty() {
    return Ok(());
  }
  let secret: std::collections::HashMap<Val, u8> = t.punctured.iter().map(|x| (orig[*x as usize], *x)).collect();
  st.evals(1);
  st.class("derivability-closure-checked");
  for (covered, depth, seed) in t.g.verif_retained_nodes() {
    if seed.len() != 32 {
      continue;
    }
    let mut s = [0u8; 32];
    s.copy_from_slice(&seed);
    let mut lvl = vec![s];
    for steps in 0..=8usize {
      for v in &lvl {
        if let Some(x) = secret.get(v) {
          return Err(format!(
            "the value of punctured input {x} can be recomputed from retained key material: {steps} generator step(s) from the seed of the retained node of depth {depth} that covers {:?}{} (punctured set {:?})",
            &covered[..covered.len().min(8)],
            if covered.len() > 8 { " ..." } else { "" },
            t.punctured.iter().collect::<Vec<_>>()
          ));
        }
      }
      if steps < 8 {
        lvl = prg.level(&lvl);
      }
    }
  }
  Ok(())
}

fn describe(p: &BTreeSet<u8>) -> String {
  format!("{:?}", p.iter().collect::<Vec<_>>())
}

/// C10 oracle on a set of inputs
pub fn check_functional(t: &Tracked, orig: &[Val], scope: impl Iterator<Item = u8>, st: &mut Stats) -> Result<(), String> {
  for x in scope {
    st.evals(1);
    let r = eval(&t.g, x);
    if t.punctured.contains(&x) {
      if let Ok(v) = r {
        return Err(format!(
          "punctured input {x} still evaluates (to {}{}) after puncturing {}",
          hex::encode(v),
          if v == orig[x as usize] { ", its original value" } else { "" },
          describe(&t.punctured)
        ));
      }
      let mut c = t.g.clone();
      if c.puncture(&[x]).is_ok() {
        return Err(format!("punctured input {x} could be punctured again (punctured set {})", describe(&t.punctured)));
      }
    } else {
      match r {
        Ok(v) if v == orig[x as usize] => {}
        Ok(v) => {
          return Err(format!(
            "unpunctured input {x} changed its value: {} -> {} after puncturing {}",
            hex::encode(orig[x as usize]),
            hex::encode(v),
            describe(&t.punctured)
          ))
        }
        Err(e) => {
          return Err(format!("unpunctured input {x} no longer evaluates ({e}) after puncturing {}", describe(&t.punctured)));
        }
      }
    }
  }
  Ok(())
}

/// C11 oracle on the retained node list
pub fn check_retained(t: &Tracked, orig: &[Val], st: &mut Stats) -> Result<(), String> {
  st.evals(1);
  let nodes = t.g.verif_retained_nodes();
  let mut cover = [0u16; 256];
  for (covered, depth, seed) in &nodes {
    for x in covered {
      cover[*x as usize] += 1;
      if t.punctured.contains(x) {
        return Err(format!(
          "a retained tree node (depth {depth}, seed {}) covers punctured input {x}: its value can be recomputed (punctured set {})",
          hex::encode(seed),
          describe(&t.punctured)
        ));
      }
    }
    if covered.is_empty() {
      return Err(format!("a retained node of depth {depth} covers no input"));
    }
  }
  for x in 0..=255u8 {
    let c = cover[x as usize];
    if t.punctured.contains(&x) {
      continue;
    }
    if c != 1 {
      return Err(format!(
        "unpunctured input {x} is covered by {c} retained nodes (want exactly 1) after puncturing {}",
        describe(&t.punctured)
      ));
    }
  }
  // no retained seed equals the value the PRF had at a punctured input
  for (_, depth, seed) in &nodes {
    for x in &t.punctured {
      if seed[..] == orig[*x as usize][..] {
        return Err(format!("the value of punctured input {x} survives as the seed of a retained node (depth {depth})"));
      }
    }
  }
  let rec: BTreeSet<u8> = t.g.verif_punctured().into_iter().collect();
  if !rec.is_subset(&t.punctured) {
    // bookkeeping that runs ahead of the history is not by itself a violation of the
    // statement (what matters is which seeds are retained); it is recorded in the evidence
    st.class("key-log-lists-tags-the-history-did-not-puncture");
  }
  Ok(())
}

/// One puncture step with both oracles around it.  `scope` lists the inputs
/// whose behaviour is re-checked after the step.
pub fn step(
  t: &mut Tracked,
  x: u8,
  orig: &[Val],
  which: Which,
  scope: &[u8],
  st: &mut Stats,
) -> Result<(), String> {
  let before = if which.c11 { Some(t.g.verif_retained_nodes()) } else { None };
  let was = t.punctured.contains(&x);
  let r = t.g.puncture(&[x]);
  if was {
    // "can never be punctured again" is C10's clause; C11 only needs it to stay dead
    if r.is_ok() && which.c10 {
      return Err(format!("input {x} was punctured twice successfully"));
    }
  } else {
    r.map_err(|e| format!("puncturing unpunctured input {x} failed: {e} (already punctured: {})", describe(&t.punctured)))?;
    t.punctured.insert(x);
  }
  if which.c10 {
    check_functional(t, orig, scope.iter().cloned(), st)?;
  }
  if which.c11 {
    check_retained(t, orig, st)?;
    if !was {
      // the node that covered x before the puncture must be gone
      if let Some(b) = before {
        let after: BTreeSet<Vec<u8>> = t.g.verif_retained_nodes().into_iter().map(|n| n.2).collect();
        for (cov, depth, seed) in b {
          if cov.contains(&x) && after.contains(&seed) {
            return Err(format!(
              "the seed of the node that covered input {x} before its puncture (depth {depth}) is still retained afterwards"
            ));
          }
        }
      }
    }
  }
  Ok(())
}

/// inputs related to x in the tree whatever the bit order: one bit flipped,
/// and one bit flipped plus other bits scrambled
pub fn neighbourhood(x: u8, salt: u8) -> Vec<u8> {
  let mut v = vec![x];
  for i in 0..8 {
    let f = x ^ (1 << i);
    v.push(f);
    let scr = salt.wrapping_mul(37).wrapping_add(i * 29);
    v.push(f ^ (scr & !(1u8 << i) & 0xF0));
    v.push(f ^ (scr & !(1u8 << i) & 0x0F));
  }
  v
}

pub const SPREAD: [u8; 16] = [0, 1, 2, 3, 64, 85, 127, 128, 129, 170, 191, 192, 253, 254, 255, 100];

/// Explore, for sub-domain `d`, every subset whose lowest-index element is
/// d[first], taking EVERY single-step transition from each of those states
/// (transitions to lower indices are checked but not expanded, they belong to
/// another work item).  Returns (states, transitions).
pub fn explore_lattice(d: &[u8], first: usize, which: Which, st: &mut Stats) -> Result<(u64, u64), String> {
  let g = GGM::setup();
  let orig = original(&g)?;
  let mut scope: Vec<u8> = d.to_vec();
  scope.extend_from_slice(&SPREAD);
  scope.sort();
  scope.dedup();
  let closure = if which.c11 { Prg::for_fresh_key(&g, &orig) } else { None };
  let root = Tracked {
    g,
    punctured: BTreeSet::new(),
    closure,
  };
  let mut start = root.clone();
  step(&mut start, d[first], &orig, which, &scope, st)?;
  if which.c11 {
    check_derivability(&start, &orig, st)?;
  }
  let mut level: HashMap<u32, Tracked> = HashMap::new();
  level.insert(1 << first, start);
  let (mut states, mut transitions) = (0u64, 1u64);
  while !level.is_empty() {
    let mut next: HashMap<u32, Tracked> = HashMap::new();
    let mut keys: Vec<u32> = level.keys().cloned().collect();
    keys.sort();
    for mask in keys {
      let t = &level[&mask];
      states += 1;
      for (i, x) in d.iter().enumerate() {
        if mask & (1 << i) != 0 {
          continue;
        }
        let mut c = t.clone();
        step(&mut c, *x, &orig, which, &scope, st)?;
        transitions += 1;
        if which.c11 && (c.punctured.len() <= 3 || (mask as usize + i) % 13 == 0) {
          check_derivability(&c, &orig, st)?;
        }
        // deep transitions are what the repository's tests never reach
        if mask.count_ones() >= 1 {
          st.nontrivial(&(d, mask, i));
        }
        if i > first {
          next.entry(mask | (1 << i)).or_insert(c);
        }
      }
    }
    level = next;
  }
  Ok((states, transitions))
}

/// the sub-domains explored: (name, leaves)
pub fn subdomains(leaves: usize, variant: u64) -> (String, Vec<u8>) {
  let bits = leaves.trailing_zeros() as usize; // 3 or 4
  let base = (variant as u8).wrapping_mul(73).wrapping_add(19);
  match variant % 6 {
    0 => {
      // vary the high bits, fix the low ones
      let fixed = base & ((1u16 << (8 - bits)) - 1) as u8;
      ("vary-high-bits".into(), (0..leaves).map(|k| fixed | ((k as u8) << (8 - bits))).collect())
    }
    1 => {
      // vary the low bits, fix the high ones
      let fixed = base & !(((1u16 << bits) - 1) as u8);
      ("vary-low-bits".into(), (0..leaves).map(|k| fixed | k as u8).collect())
    }
    2 => {
      // vary spread-out bit positions
      let pos: &[u8] = if bits == 3 { &[0, 4, 7] } else { &[0, 2, 5, 7] };
      (
        "vary-spread-bits".into(),
        (0..leaves)
          .map(|k| {
            let mut v = base;
            for (j, p) in pos.iter().enumerate() {
              v = (v & !(1 << p)) | ((((k >> j) & 1) as u8) << p);
            }
            v
          })
          .collect(),
      )
    }
    3 => {
      // middle bits
      let sh = (8 - bits) / 2;
      let m = (((1u16 << bits) - 1) as u8) << sh;
      ("vary-middle-bits".into(), (0..leaves).map(|k| (base & !m) | ((k as u8) << sh)).collect())
    }
    4 => {
      // two adjacent runs: 0..leaves/2 at the bottom and at the top of the domain
      let h = leaves / 2;
      ("both-ends".into(), (0..h).map(|k| k as u8).chain((0..h).map(|k| 255 - k as u8)).collect())
    }
    _ => {
      // pseudo-random distinct inputs from the variant number
      let mut v = Vec::new();
      let mut s = variant.wrapping_mul(0x9E37_79B9_7F4A_7C15) | 1;
      while v.len() < leaves {
        s ^= s << 13;
        s ^= s >> 7;
        s ^= s << 17;
        let x = (s >> 24) as u8;
        if !v.contains(&x) {
          v.push(x);
        }
      }
      ("scattered".into(), v)
    }
  }
}
