//! Independent parser / encoder of the documented wire layouts.  Written from
//! the documentation only; calls none of the implementation's codecs.
//!
//! ```text
//! report     := chunk(ciphertext) chunk(adss_share) chunk(tag)         [+ trailing]
//! adss_share := u32le(threshold) chunk(S) chunk(C) chunk(D) J[64]
//! S          := fe(x) fe(y)*  [+ <24 trailing bytes]
//! chunk(b)   := u32le(len b) b          fe := 24-byte little-endian integer < p
//! ```

use crate::bigmodel;
use num_bigint::BigUint;
use std::ops::Range;

pub const FE: usize = 24;
pub const MAC: usize = 64;

#[derive(Clone, Copy, Debug, PartialEq, Eq)]
pub enum Verdict {
  MustAccept,
  MustReject,
  May,
}

pub fn u32le(v: u32) -> [u8; 4] {
  v.to_le_bytes()
}

pub fn chunk(b: &[u8]) -> Vec<u8> {
  let mut out = Vec::with_capacity(4 + b.len());
  out.extend_from_slice(&u32le(b.len() as u32));
  out.extend_from_slice(b);
  out
}

/// read a chunk at `off`; returns the payload range
pub fn read_chunk(s: &[u8], off: usize) -> Option<Range<usize>> {
  if s.len() < off || s.len() - off < 4 {
    return None;
  }
  let len = u32::from_le_bytes([s[off], s[off + 1], s[off + 2], s[off + 3]]) as u64;
  let start = off as u64 + 4;
  let end = start + len; // u64: cannot overflow for u32 len
  if end > s.len() as u64 {
    return None;
  }
  Some(start as usize..end as usize)
}

fn fe_in_range(b: &[u8]) -> bool {
  debug_assert_eq!(b.len(), FE);
  BigUint::from_bytes_le(b) < bigmodel::p()
}

/// Field addressing inside an encoded ADSS share (offsets relative to the share)
#[derive(Clone, Debug, PartialEq, Eq)]
pub struct ShareFields {
  pub threshold: Range<usize>,
  pub len_s: Range<usize>,
  pub s: Range<usize>,
  pub len_c: Range<usize>,
  pub c: Range<usize>,
  pub len_d: Range<usize>,
  pub d: Range<usize>,
  pub j: Range<usize>,
  pub trailing: usize,
}

impl ShareFields {
  pub fn x(&self) -> Range<usize> {
    self.s.start..(self.s.start + FE).min(self.s.end)
  }
  pub fn y_count(&self) -> usize {
    (self.s.len().saturating_sub(FE)) / FE
  }
  pub fn y(&self, i: usize) -> Range<usize> {
    let st = self.s.start + FE * (1 + i);
    st..st + FE
  }
  pub fn named(&self) -> Vec<(&'static str, Range<usize>)> {
    let mut v = vec![
      ("threshold", self.threshold.clone()),
      ("len_S", self.len_s.clone()),
      ("x", self.x()),
    ];
    if self.y_count() > 0 {
      v.push(("y", self.y(0).start..self.y(self.y_count() - 1).end));
    }
    v.push(("len_C", self.len_c.clone()));
    if !self.c.is_empty() {
      v.push(("C", self.c.clone()));
    }
    v.push(("len_D", self.len_d.clone()));
    if !self.d.is_empty() {
      v.push(("D", self.d.clone()));
    }
    v.push(("J", self.j.clone()));
    v
  }
}

/// Structural parse of an ADSS share (no range checks on field elements)
pub fn share_fields(s: &[u8]) -> Option<ShareFields> {
  if s.len() < 4 {
    return None;
  }
  let sr = read_chunk(s, 4)?;
  let cr = read_chunk(s, sr.end)?;
  let dr = read_chunk(s, cr.end)?;
  if s.len() - dr.end < MAC {
    return None;
  }
  Some(ShareFields {
    threshold: 0..4,
    len_s: 4..8,
    s: sr.clone(),
    len_c: sr.end..sr.end + 4,
    c: cr.clone(),
    len_d: cr.end..cr.end + 4,
    d: dr.clone(),
    j: dr.end..dr.end + MAC,
    trailing: s.len() - dr.end - MAC,
  })
}

/// verdict on the inner Shamir share bytes and their canonical form
pub fn sharks_share_verdict(s: &[u8]) -> (Verdict, Option<Vec<u8>>) {
  if s.len() < FE {
    return (Verdict::MustReject, None);
  }
  let n = s.len() / FE;
  for i in 0..n {
    if !fe_in_range(&s[i * FE..(i + 1) * FE]) {
      return (Verdict::MustReject, None);
    }
  }
  // an evaluation point of zero is never produced by an honest dealer; a decoder may
  // accept it (it is a field element) or refuse it (it would carry the secret itself)
  if s[..FE].iter().all(|b| *b == 0) {
    return (Verdict::May, Some(s[..n * FE].to_vec()));
  }
  (Verdict::MustAccept, Some(s[..n * FE].to_vec()))
}

/// verdict on an encoded ADSS share and the canonical form of the string
pub fn share_verdict(s: &[u8]) -> (Verdict, Option<Vec<u8>>) {
  let f = match share_fields(s) {
    Some(f) => f,
    None => return (Verdict::MustReject, None),
  };
  let (vs, canon_s) = sharks_share_verdict(&s[f.s.clone()]);
  if vs == Verdict::MustReject {
    return (Verdict::MustReject, None);
  }
  let mut canon = Vec::new();
  canon.extend_from_slice(&s[f.threshold.clone()]);
  canon.extend_from_slice(&chunk(&canon_s.unwrap()));
  canon.extend_from_slice(&chunk(&s[f.c.clone()]));
  canon.extend_from_slice(&chunk(&s[f.d.clone()]));
  canon.extend_from_slice(&s[f.j.clone()]);
  if f.trailing > 0 || vs == Verdict::May {
    // bytes after the 64-byte tag inside the share (or x = 0): policy not pinned
    (Verdict::May, Some(canon))
  } else {
    (Verdict::MustAccept, Some(canon))
  }
}

#[derive(Clone, Debug, PartialEq, Eq)]
pub struct ReportFields {
  pub len_ct: Range<usize>,
  pub ct: Range<usize>,
  pub len_share: Range<usize>,
  pub share: Range<usize>,
  pub len_tag: Range<usize>,
  pub tag: Range<usize>,
  pub trailing: usize,
}

pub fn report_fields(s: &[u8]) -> Option<ReportFields> {
  let ct = read_chunk(s, 0)?;
  let sh = read_chunk(s, ct.end)?;
  let tg = read_chunk(s, sh.end)?;
  Some(ReportFields {
    len_ct: 0..4,
    ct: ct.clone(),
    len_share: ct.end..ct.end + 4,
    share: sh.clone(),
    len_tag: sh.end..sh.end + 4,
    tag: tg.clone(),
    trailing: s.len() - tg.end,
  })
}

pub fn report_verdict(s: &[u8]) -> (Verdict, Option<Vec<u8>>) {
  let f = match report_fields(s) {
    Some(f) => f,
    None => {
      // a report may fail structurally in the tag chunk while its share chunk
      // is fine: still a reject
      return (Verdict::MustReject, None);
    }
  };
  let (vs, cs) = share_verdict(&s[f.share.clone()]);
  if vs == Verdict::MustReject {
    return (Verdict::MustReject, None);
  }
  let mut canon = Vec::new();
  canon.extend_from_slice(&chunk(&s[f.ct.clone()]));
  canon.extend_from_slice(&chunk(&cs.unwrap()));
  canon.extend_from_slice(&chunk(&s[f.tag.clone()]));
  if vs == Verdict::May || f.trailing > 0 {
    (Verdict::May, Some(canon))
  } else {
    (Verdict::MustAccept, Some(canon))
  }
}

/// model-side encoder of an ADSS share from its parts
pub fn encode_share(threshold: u32, s: &[u8], c: &[u8], d: &[u8], j: &[u8]) -> Vec<u8> {
  let mut out = Vec::new();
  out.extend_from_slice(&u32le(threshold));
  out.extend_from_slice(&chunk(s));
  out.extend_from_slice(&chunk(c));
  out.extend_from_slice(&chunk(d));
  out.extend_from_slice(j);
  out
}

pub fn encode_report(ct: &[u8], share: &[u8], tag: &[u8]) -> Vec<u8> {
  let mut out = Vec::new();
  out.extend_from_slice(&chunk(ct));
  out.extend_from_slice(&chunk(share));
  out.extend_from_slice(&chunk(tag));
  out
}

/// the inner Shamir point (x, y_0..) of an encoded ADSS share, as integers
pub fn share_point(share: &[u8]) -> Option<(BigUint, Vec<BigUint>)> {
  let f = share_fields(share)?;
  let s = &share[f.s.clone()];
  if s.len() < FE {
    return None;
  }
  let x = BigUint::from_bytes_le(&s[..FE]);
  let ys = (0..f.y_count())
    .map(|i| BigUint::from_bytes_le(&s[FE * (1 + i)..FE * (2 + i)]))
    .collect();
  Some((x, ys))
}

/// the threshold recorded in an encoded ADSS share
pub fn share_threshold(share: &[u8]) -> Option<u32> {
  if share.len() < 4 {
    return None;
  }
  Some(u32::from_le_bytes([share[0], share[1], share[2], share[3]]))
}

/// payload := chunk(measurement) [chunk(aux)]; returns (measurement, aux) where
/// aux distinguishes absent (None) from present-but-empty (Some(empty)).
pub fn parse_payload(p: &[u8]) -> Option<(Vec<u8>, Option<Vec<u8>>)> {
  let m = read_chunk(p, 0)?;
  if m.end == p.len() {
    return Some((p[m.clone()].to_vec(), None));
  }
  let a = read_chunk(p, m.end)?;
  if a.end != p.len() {
    return None;
  }
  Some((p[m].to_vec(), Some(p[a].to_vec())))
}

pub fn build_payload(m: &[u8], aux: Option<&[u8]>) -> Vec<u8> {
  let mut out = chunk(m);
  if let Some(a) = aux {
    out.extend_from_slice(&chunk(a));
  }
  out
}
