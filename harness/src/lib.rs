//! Verification harness for brave/sta-rs: generators, independent models,
//! oracles (one module per property) and the engine that runs them.

pub mod bigmodel;
pub mod engine;
pub mod fuzzentry;
pub mod gens;
pub mod ggmx;
pub mod layout;
pub mod pp;
pub mod props;
pub mod starx;
pub mod wiregen;

pub use engine::{Ctx, Property, Tier};

pub const ALL: [&str; 18] = [
  "C01", "C02", "C03", "C04", "C05", "C06", "C07", "C08", "C09", "C10", "C11", "C12", "C13", "C14",
  "C15", "C16", "C17", "C18",
];

pub fn property(id: &str) -> Option<Property> {
  props::property(id)
}
