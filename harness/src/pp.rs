//! PPOPRF building blocks shared by C09, C12, C13, C14, C15: an independent
//! reader/writer of the documented bincode forms, point and scalar generators,
//! group algebra recomputed with curve25519-dalek.

use crate::engine::idx;
use crate::gens::*;
use curve25519_dalek::constants::RISTRETTO_BASEPOINT_POINT;
use curve25519_dalek::ristretto::{CompressedRistretto, RistrettoPoint};
use curve25519_dalek::scalar::Scalar;
use ppoprf::ppoprf::{Point, ProofDLEQ, ServerPublicKey};
use proptest::prelude::*;
use serde::{Deserialize, Serialize};

/// documented bincode form of a public key:
/// 32-byte base point, u64 LE count, count x (u8 tag, 32-byte point)
#[derive(Clone, Debug, PartialEq, Eq)]
pub struct PkModel {
  pub base: [u8; 32],
  pub entries: Vec<(u8, [u8; 32])>,
}

impl PkModel {
  pub fn encode(&self) -> Vec<u8> {
    let mut out = self.base.to_vec();
    out.extend_from_slice(&(self.entries.len() as u64).to_le_bytes());
    for (t, p) in &self.entries {
      out.push(*t);
      out.extend_from_slice(p);
    }
    out
  }
  /// independent reader; `Err` = the bytes do not hold a complete public key.
  /// Returns the model and the number of bytes consumed.
  pub fn decode(b: &[u8]) -> Result<(PkModel, usize), String> {
    if b.len() < 40 {
      return Err("shorter than base point + count".into());
    }
    let mut base = [0u8; 32];
    base.copy_from_slice(&b[..32]);
    let mut c = [0u8; 8];
    c.copy_from_slice(&b[32..40]);
    let count = u64::from_le_bytes(c);
    let need = 40u128 + 33u128 * count as u128;
    if need > b.len() as u128 {
      return Err(format!("count {count} needs {need} bytes, have {}", b.len()));
    }
    let mut entries = Vec::with_capacity(count as usize);
    let mut off = 40;
    for _ in 0..count {
      let t = b[off];
      let mut p = [0u8; 32];
      p.copy_from_slice(&b[off + 1..off + 33]);
      entries.push((t, p));
      off += 33;
    }
    Ok((PkModel { base, entries }, off))
  }
  /// the map view: a repeated tag takes its last entry
  pub fn map(&self) -> std::collections::BTreeMap<u8, [u8; 32]> {
    let mut m = std::collections::BTreeMap::new();
    for (t, p) in &self.entries {
      m.insert(*t, *p);
    }
    m
  }
  /// canonical (sorted, de-duplicated) form
  pub fn canonical(&self) -> PkModel {
    PkModel {
      base: self.base,
      entries: self.map().into_iter().collect(),
    }
  }
}

pub fn decompress(b: &[u8; 32]) -> Option<RistrettoPoint> {
  CompressedRistretto(*b).decompress()
}

pub fn point_from(b: &[u8; 32]) -> Point {
  Point::from(&b[..])
}

/// canonical scalar from 32 bytes, or None
pub fn scalar_canonical(b: &[u8; 32]) -> Option<Scalar> {
  Option::from(Scalar::from_canonical_bytes(*b))
}

pub fn proof_from_scalars(c: &Scalar, s: &Scalar) -> ProofDLEQ {
  let mut b = c.to_bytes().to_vec();
  b.extend_from_slice(&s.to_bytes());
  ProofDLEQ::load_from_bincode(&b).expect("two canonical scalars are a proof")
}

/// (c, s) of a proof through its documented bincode form c || s
pub fn proof_scalars(p: &ProofDLEQ) -> Result<(Scalar, Scalar), String> {
  let b = p.serialize_to_bincode().map_err(|e| format!("proof does not serialise: {e}"))?;
  if b.len() != 64 {
    return Err(format!("proof serialises to {} bytes, documented form is 64", b.len()));
  }
  let mut c = [0u8; 32];
  let mut s = [0u8; 32];
  c.copy_from_slice(&b[..32]);
  s.copy_from_slice(&b[32..]);
  Ok((
    scalar_canonical(&c).ok_or("challenge scalar not canonical")?,
    scalar_canonical(&s).ok_or("response scalar not canonical")?,
  ))
}

/// combined public value base + entry(md), from the documented public-key bytes
pub fn combined_pk(pk: &ServerPublicKey, md: u8) -> Result<RistrettoPoint, String> {
  let b = pk.serialize_to_bincode().map_err(|e| format!("pk does not serialise: {e}"))?;
  let (m, _) = PkModel::decode(&b)?;
  let e = m.map().get(&md).cloned().ok_or_else(|| format!("no entry for tag {md}"))?;
  Ok(decompress(&m.base).ok_or("base point does not decode")? + decompress(&e).ok_or("entry does not decode")?)
}

pub fn basepoint() -> RistrettoPoint {
  RISTRETTO_BASEPOINT_POINT
}

/// 32-byte strings to put where a group element is expected
#[derive(Clone, Debug, Serialize, Deserialize)]
pub enum PointSpec {
  /// keep the honest value
  Honest,
  /// all 0xFF (not a canonical field element)
  AllFF,
  /// the identity (all zero; decodes)
  Identity,
  /// arbitrary bytes (most do not decode)
  Bytes(Hx),
  /// a valid point: hash of the seed
  Valid(u64),
}

pub fn point_spec() -> BoxedStrategy<PointSpec> {
  prop_oneof![
    4 => Just(PointSpec::Honest),
    2 => Just(PointSpec::AllFF),
    1 => Just(PointSpec::Identity),
    3 => uniform_bytes(32, 32).prop_map(PointSpec::Bytes),
    2 => any::<u64>().prop_map(PointSpec::Valid),
  ]
  .boxed()
}

pub fn valid_point(seed: u64) -> RistrettoPoint {
  let b = expand(seed, 64);
  let mut a = [0u8; 64];
  a.copy_from_slice(&b);
  RistrettoPoint::from_uniform_bytes(&a)
}

impl PointSpec {
  pub fn apply(&self, honest: [u8; 32]) -> [u8; 32] {
    match self {
      PointSpec::Honest => honest,
      PointSpec::AllFF => [0xFF; 32],
      PointSpec::Identity => [0u8; 32],
      PointSpec::Bytes(h) => {
        let mut a = [0u8; 32];
        let l = h.len().min(32);
        a[..l].copy_from_slice(&h[..l]);
        a
      }
      PointSpec::Valid(s) => valid_point(*s).compress().to_bytes(),
    }
  }
  pub fn is_honest(&self) -> bool {
    matches!(self, PointSpec::Honest)
  }
}

/// tag sets: registered tags incl. extreme and adjacent ones
pub fn tag_set(max: usize) -> BoxedStrategy<Vec<u8>> {
  prop_oneof![
    2 => Just(vec![0u8]),
    2 => Just(vec![0u8, 1, 255]),
    2 => Just(vec![254u8, 255]),
    3 => proptest::collection::vec(any::<u8>(), 1..max.max(2)),
    1 => (any::<u8>(), 1usize..max.max(2)).prop_map(|(s, n)| (0..n).map(|i| s.wrapping_add(i as u8)).collect()),
    // a tag together with its one-bit neighbours (siblings / cousins at every tree level)
    2 => (any::<u8>(), 1usize..9).prop_map(|(s, n)| std::iter::once(s).chain((0..n.min(8)).map(move |i| s ^ (1u8 << (7 - i)))).collect()),
    1 => (any::<u8>(), 1usize..9).prop_map(|(s, n)| std::iter::once(s).chain((0..n.min(8)).map(move |i| s ^ (1u8 << i))).collect()),
  ]
  .prop_map(|mut v: Vec<u8>| {
    let mut seen = std::collections::BTreeSet::new();
    v.retain(|x| seen.insert(*x));
    v
  })
  .boxed()
}

/// The list handed to `Server::new` for a tag set: for about half of the sets (a pure
/// function of the set, so replay and shrinking are unaffected) the list is reordered and
/// names some tags more than once - now and then more than 256 entries long.  Registering a tag twice registers it.
pub fn registration_list(mds: &[u8]) -> Vec<u8> {
  if mds.is_empty() {
    return vec![];
  }
  let mut h: u64 = 0xcbf2_9ce4_8422_2325;
  for b in mds {
    h = (h ^ *b as u64).wrapping_mul(0x0000_0100_0000_01b3);
  }
  match h % 6 {
    // a long list (more entries than there are tags): one tag named 256 times, then every tag
    1 => {
      let mut v = vec![mds[(h >> 8) as usize % mds.len()]; 256];
      v.extend_from_slice(mds);
      v
    }
    0 | 3 => {
      let mut v: Vec<u8> = mds.iter().rev().cloned().collect();
      let a = mds[(h >> 8) as usize % mds.len()];
      let b = mds[(h >> 24) as usize % mds.len()];
      v.insert(0, a);
      v.push(b);
      v.push(a);
      v
    }
    _ => mds.to_vec(),
  }
}

/// A server for a tag set, created from `registration_list`.  Whether a list that names a tag
/// twice is accepted is not pinned by any property (refusing it would be a legitimate
/// hardening): if it is refused, the server is created from the plain set instead.
pub fn new_server(mds: &[u8]) -> Result<ppoprf::ppoprf::Server, ppoprf::PPRFError> {
  let list = registration_list(mds);
  if list != mds {
    if let Ok(s) = ppoprf::ppoprf::Server::new(list) {
      return Ok(s);
    }
  }
  ppoprf::ppoprf::Server::new(mds.to_vec())
}

pub fn pick_tag(mds: &[u8], sel: u16) -> u8 {
  mds[idx(sel, mds.len())]
}
