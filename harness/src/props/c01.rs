//! C01 Threshold recovery: >= t matching reports always reveal measurement and aux.

use crate::engine::*;
use crate::gens::*;
use crate::layout;
use crate::starx;
use proptest::collection::vec;
use proptest::prelude::*;
use serde::{Deserialize, Serialize};
use serde_json::json;
use sta_rs::{share_recover, Message, Share};

#[derive(Clone, Debug, Serialize, Deserialize)]
pub struct Case {
  pub m: Hx,
  pub epoch: Hx,
  pub t: u32,
  /// surplus reports beyond t, mapped onto 0..=t
  pub extra: u16,
  /// per-client associated data, client i uses aux[i % len]; None = absent
  pub aux: Vec<Option<Hx>>,
  /// 0 = locally derived, 1 = arbitrary 32 bytes, 2 = real PPOPRF exchange
  pub source: u8,
  pub rnd: Hx,
  pub md: u8,
  /// reports pass through to_bytes/from_bytes
  pub wire: bool,
  pub sel_exact: SelSpec,
  pub sel_super: SelSpec,
  /// the generator object is first built for another measurement and its public field `x` is then reassigned
  #[serde(default)]
  pub reassign_x: bool,
}

fn strat(tier: Tier) -> BoxedStrategy<Case> {
  let max = tier.pick(4096usize, 65536usize);
  (
    (bytes(max), epoch(), threshold(tier, 1), any::<u16>()),
    vec(prop_oneof![200 => Just(None), 100 => Just(Some(Hx(vec![]))), 400 => bytes(600).prop_map(Some), 3 => (65400usize..70000, any::<u64>()).prop_map(|(l, s)| Some(Hx(expand(s, l))))], 1..6),
    (prop_oneof![3 => Just(0u8), 2 => Just(1u8), 1 => Just(2u8)], uniform_bytes(32, 32), any::<u8>(), any::<bool>()),
    (sel_spec(), sel_spec(), prop::bool::weighted(0.25)),
  )
    .prop_map(|((m, epoch, t, extra), aux, (source, rnd, md, wire), (sel_exact, sel_super, reassign_x))| Case {
      m,
      epoch,
      t,
      extra,
      aux,
      source,
      rnd,
      md,
      wire,
      sel_exact,
      sel_super,
      reassign_x,
    })
    .boxed()
}

fn oracle(c: &Case, st: &mut Stats) -> Result<(), String> {
  let t = c.t.max(1);
  // now and then a large collection (sizes around powers of two), at small thresholds only
  let n = if c.extra % 61 == 7 && t <= 8 {
    st.class("large-collection(255..2049 reports)");
    (t as usize).max([255usize, 256, 257, 1023, 1024, 1025, 2049][(c.extra / 61) as usize % 7])
  } else {
    t as usize + idx(c.extra, t as usize + 1)
  };
  let g = if c.reassign_x {
    // a client object that is reused: built for another measurement, then pointed at this one
    let mut other = c.m.0.clone();
    other.extend_from_slice(b"-previous");
    let mut g = starx::mg(&other, t, &c.epoch);
    let _ = starx::report(&g, &starx::local_rnd(&g), None)?;
    g.x = sta_rs::SingleMeasurement::new(&c.m);
    st.class("generator-reused-with-x-reassigned");
    g
  } else {
    starx::mg(&c.m, t, &c.epoch)
  };
  let rnd: [u8; 32] = match c.source {
    0 => starx::local_rnd(&g),
    1 => {
      let mut r = [0u8; 32];
      let l = c.rnd.len().min(32);
      r[..l].copy_from_slice(&c.rnd[..l]);
      r
    }
    _ => {
      // every client runs its own exchange with its own blinding; all must
      // obtain the same 32 bytes
      let server = ppoprf::ppoprf::Server::new(vec![c.md]).map_err(|e| format!("Server::new: {e}"))?;
      let r0 = starx::ppoprf_exchange(&server, c.md, &c.m, true)?;
      for k in 0..2 {
        let rk = starx::ppoprf_exchange(&server, c.md, &c.m, k == 0)?;
        if rk != r0 {
          return Err(format!(
            "two clients obtained different randomness from one server for the same measurement: {} vs {}",
            hx(&r0),
            hx(&rk)
          ));
        }
      }
      r0
    }
  };
  let src = ["local", "arbitrary32", "ppoprf"][(c.source as usize).min(2)];
  st.class(&format!("source={src}"));
  st.class(if c.wire { "wire=bytes" } else { "wire=memory" });
  st.class(match t {
    1 => "t=1",
    2 => "t=2",
    3..=8 => "t=3-8",
    9..=32 => "t=9-32",
    _ => "t>=33",
  });
  st.class(match c.m.len() {
    0 => "m=empty",
    1..=165 => "m<166",
    _ => "m>=166",
  });

  let aux_of = |i: usize| -> Option<&Hx> { c.aux[i % c.aux.len()].as_ref() };
  let mut reports: Vec<Message> = Vec::with_capacity(n);
  for i in 0..n {
    let a = aux_of(i);
    st.class(match a {
      None => "aux=absent",
      Some(x) if x.is_empty() => "aux=empty",
      Some(x) if x.len() + c.m.len() + 8 >= 65536 => "aux>=64KiB",
      Some(x) if x.len() + c.m.len() + 8 > 166 => "aux=multi-block",
      Some(_) => "aux=short",
    });
    let msg = starx::report(&g, &rnd, a.map(|x| &x[..]))?;
    let msg = if c.wire {
      let b = msg.to_bytes();
      let back = Message::from_bytes(&b)
        .ok_or_else(|| format!("honest report does not decode from its own bytes: {}", hx(&b)))?;
      if back != msg {
        return Err(format!("report changed across to_bytes/from_bytes: {}", hx(&b)));
      }
      back
    } else {
      msg
    };
    reports.push(msg);
  }
  let shares: Vec<Share> = reports.iter().map(|r| r.share.clone()).collect();

  // for part of the cases the aggregation side has already tried - and failed - to open this
  // measurement from too few distinct reports, some of them sent repeatedly; what it may
  // remember of that attempt must not stand in the way once enough reports are there
  if t >= 2 && c.extra % 2 == 1 {
    let d = (t as usize - 1).min(n);
    let mut early: Vec<Share> = shares[..d].to_vec();
    let reps = 1 + (c.extra as usize / 2) % (2 * t as usize);
    for k in 0..reps {
      early.push(shares[k % d].clone());
    }
    st.evals(1);
    if share_recover(&early).is_ok() {
      return Err(format!("share_recover succeeded on {} distinct reports (with {reps} repeats) under threshold {t}", d));
    }
    st.class("earlier-failed-attempt-with-repeats");
  }

  let identity: Vec<usize> = (0..n).collect();
  let mut exact = c.sel_exact.clone();
  exact.extra = 0;
  exact.dups.clear();
  let sel_exact = exact.build(n, t as usize);
  let sel_super = c.sel_super.build(n, t as usize);
  let mut first_msg: Option<Vec<u8>> = None;
  for (name, sel) in [("identity", &identity), ("exact-t", &sel_exact), ("superset", &sel_super)] {
    let chosen: Vec<Share> = sel.iter().map(|i| shares[*i].clone()).collect();
    let distinct: std::collections::BTreeSet<usize> = sel.iter().cloned().collect();
    if distinct.len() < t as usize {
      return Err(format!("harness bug: selection {name} keeps {} < t distinct", distinct.len()));
    }
    let shape = sel_shape(sel, n);
    st.class(&format!("selection={shape}"));
    st.evals(1);
    let rec = share_recover(&chosen).map_err(|e| {
      format!(
        "share_recover failed on selection {name} {:?} (n={n}, t={t}, {} distinct): {e}; shares: {:?}",
        sel,
        distinct.len(),
        chosen.iter().map(|s| hx(&s.to_bytes())).collect::<Vec<_>>()
      )
    })?;
    let message = rec.get_message();
    match &first_msg {
      None => first_msg = Some(message.clone()),
      Some(m0) => {
        if *m0 != message {
          return Err(format!(
            "selections recover different messages: {} vs {} (selection {name} {:?})",
            hx(m0),
            hx(&message),
            sel
          ));
        }
      }
    }
    let key = starx::ske_key(&message, &c.epoch);
    for (i, r) in reports.iter().enumerate() {
      let plain = r.ciphertext.decrypt(&key, "star_encrypt");
      let parsed = layout::parse_payload(&plain);
      let want_aux = aux_of(i).map(|x| x.0.clone());
      match parsed {
        Some((m, a)) if m == c.m.0 && a == want_aux => {}
        other => {
          return Err(format!(
            "report {i} does not decrypt to what its client supplied after recovery from selection {name} {:?}: got {:?}, want measurement {} aux {:?}; report bytes {}",
            sel,
            other.map(|(m, a)| (hx(&m), a.map(|a| hx(&a)))),
            hx(&c.m),
            want_aux.as_ref().map(|a| hx(a)),
            hx(&r.to_bytes())
          ))
        }
      }
    }
    if t >= 2 && shape != "identity" {
      st.nontrivial(&(t, n, c.m.len(), c.epoch.len(), shape, c.source, c.wire, sel.len(), fp(&c.m.0)));
    }
  }
  if st.want_sample() {
    st.sample(json!({"t": t, "n": n, "measurement_len": c.m.len(), "epoch": hx(&c.epoch), "source": src, "wire": c.wire,
      "aux_lens": (0..n.min(8)).map(|i| aux_of(i).map(|a| a.len() as i64).unwrap_or(-1)).collect::<Vec<_>>(),
      "sel_exact": sel_exact, "sel_super": sel_super}));
  }
  Ok(())
}

pub fn property() -> Property {
  Property {
    id: "C01",
    level: "exploration",
    rule: "generated (measurement, epoch, t, n=t+extra, per-client aux absent/empty/bytes, randomness source local/arbitrary/PPOPRF exchange, wire round trip) x 3 selections (identity, exactly t distinct permuted, permuted superset with duplicates), for half of the cases preceded by a failed attempt on t-1 distinct reports padded with repeats; oracle: share_recover Ok, messages equal across selections, every one of the n reports decrypts to chunk(measurement)[chunk(aux)] exactly as supplied (absent != empty). Non-trivial: t >= 2 and the selection is not the identity order of all reports; distinct by (t, n, lengths, measurement, selection shape, source, wire).",
    assumptions: vec![
      "share points come from OsRng inside the code under test: each case samples one point set",
      "the STAR randomness-server path is exercised by running blind/eval/verify/unblind/finalize in the harness (the crate's own star2 feature does not compile at this commit)",
    ],
    subs: vec![prop_sub("roundtrip", 3000, 150000, strat, oracle)],
  }
}
