//! C02 Sub-threshold confidentiality: < t distinct shares never yield key or message.

use crate::bigmodel::*;
use crate::engine::*;
use crate::gens::*;
use crate::layout;
use crate::starx;
use num_bigint::BigUint;
use num_traits::Zero;
use proptest::collection::vec;
use proptest::prelude::*;
use serde::{Deserialize, Serialize};
use serde_json::json;
use sta_rs::{share_recover, Message, Share};

fn reports(m: &[u8], epoch: &[u8], t: u32, n: usize) -> Result<(Vec<Message>, [u8; 32]), String> {
  let g = starx::mg(m, t, epoch);
  let rnd = starx::local_rnd(&g);
  let mut v = Vec::with_capacity(n);
  for i in 0..n {
    let aux = [i as u8; 3];
    v.push(starx::report(&g, &rnd, if i % 2 == 0 { Some(&aux[..]) } else { None })?);
  }
  Ok((v, rnd))
}

#[derive(Clone, Debug, Serialize, Deserialize)]
pub struct Foreign {
  /// 0 other measurement, 1 other epoch, 2 other threshold (same measurement and epoch)
  pub kind: u8,
  pub t: u32,
  /// number of distinct shares contributed, mapped onto 1..=t-1 (or exactly t when `reaches`)
  pub count: u16,
  pub reaches: bool,
}

#[derive(Clone, Debug, Serialize, Deserialize)]
pub struct BelowCase {
  pub m: Hx,
  pub epoch: Hx,
  pub t: u32,
  /// distinct target shares: t-1 minus idx(less, t-1) (so 0 means t-1)
  pub less: u16,
  pub dups: Vec<(u16, u16)>,
  /// duplicates get a fresh evaluation point written over their x (defeats de-duplication by x)
  #[serde(default)]
  pub relabel: bool,
  pub foreign: Vec<Foreign>,
  /// rewrite the threshold recorded in target shares: (selector for the value, apply to all?)
  pub forge: Option<(u16, bool)>,
  pub swaps: Vec<(u16, u16)>,
  /// put the shares of a foreign group that reaches its threshold first (contiguously)
  #[serde(default)]
  pub front: bool,
}

/// thresholds next to 8- and 9-bit boundaries (a sharing of degree t-1 is materialised, so these stay small)
fn boundary_t() -> BoxedStrategy<u32> {
  prop_oneof![Just(255u32), Just(256u32), Just(257u32), Just(258u32)].boxed()
}

fn below_strat(tier: Tier) -> BoxedStrategy<BelowCase> {
  let tmax = tier.pick(40u32, 130u32);
  (
    (bytes(300), epoch(), prop_oneof![30 => 2u32..9, 20 => 9u32..33, 10 => 33u32..tmax + 1, 1 => boundary_t()]),
    prop_oneof![3 => Just(0u16), 1 => any::<u16>()],
    vec((any::<u16>(), any::<u16>()), 0..5),
    any::<bool>(),
    vec((0u8..3, 2u32..7, any::<u16>(), prop::bool::weighted(0.25)).prop_map(|(kind, t, count, reaches)| Foreign { kind, t, count, reaches }), 0..4),
    proptest::option::weighted(0.5, (any::<u16>(), any::<bool>())),
    vec((any::<u16>(), any::<u16>()), 0..8),
    any::<bool>(),
  )
    .prop_map(|((m, epoch, t), less, dups, relabel, foreign, forge, swaps, front)| BelowCase {
      m,
      epoch,
      t,
      less,
      dups,
      relabel,
      foreign,
      forge,
      swaps,
      front,
    })
    .boxed()
}

fn forged_value(sel: u16, t: u32) -> u32 {
  // values 0..t-1, t+1, 2^32-1
  let choices = t as usize + 2;
  let i = idx(sel, choices);
  if i < t as usize {
    i as u32
  } else if i == t as usize {
    t + 1
  } else {
    u32::MAX
  }
}

fn below_oracle(c: &BelowCase, st: &mut Stats) -> Result<(), String> {
  let t = c.t.max(2);
  // the target sharing: t honest reports give the secret the adversary is after
  let (target, _) = reports(&c.m, &c.epoch, t, t as usize)?;
  let all: Vec<Share> = target.iter().map(|r| r.share.clone()).collect();
  let secret = share_recover(&all)
    .map_err(|e| format!("honest recovery from t shares failed: {e}"))?
    .get_message();
  let d = (t as usize - 1) - idx(c.less, t as usize - 1);
  let d = d.max(1);
  // (bytes, group id, true threshold)
  let mut coll: Vec<(Vec<u8>, usize)> = all[..d].iter().map(|s| (s.to_bytes(), 0usize)).collect();
  // forged thresholds on target shares
  let mut forged = None;
  if let Some((sel, every)) = c.forge {
    let v = forged_value(sel, t);
    forged = Some(v);
    for (i, (b, _)) in coll.iter_mut().enumerate() {
      if every || i % 2 == 0 {
        b[..4].copy_from_slice(&v.to_le_bytes());
      }
    }
  }
  for (k, (src, at)) in c.dups.iter().enumerate() {
    let mut v = coll[idx(*src, coll.len())].clone();
    if c.relabel {
      // same share value under another evaluation point: pads the count of distinct x
      if let Some(f) = layout::share_fields(&v.0) {
        let x = le24(&BigUint::from(1_000_003u64 + 7919 * k as u64 + *src as u64));
        let r = f.x();
        v.0[r].copy_from_slice(&x);
      }
    }
    let pos = idx(*at, coll.len() + 1);
    coll.insert(pos, v);
  }
  // when the padding is relabelled, pad all the way up to the threshold
  if c.relabel {
    let mut k = 0u64;
    while coll.len() < t as usize + 1 && k < 2 * t as u64 {
      let mut v = coll[(k as usize) % d].clone();
      if let Some(f) = layout::share_fields(&v.0) {
        let x = le24(&BigUint::from(2_000_003u64 + k));
        let r = f.x();
        v.0[r].copy_from_slice(&x);
      }
      coll.push(v);
      k += 1;
    }
    st.class("padding-relabelled-to-threshold");
  }
  // foreign groups
  let mut reaching: Vec<(usize, Vec<u8>)> = Vec::new(); // (group id, its message)
  let mut seen_foreign: std::collections::BTreeSet<(Vec<u8>, Vec<u8>, u32)> = std::collections::BTreeSet::new();
  seen_foreign.insert((c.m.0.clone(), c.epoch.0.clone(), t));
  for (gi, f) in c.foreign.iter().enumerate() {
    let ft = f.t.max(2);
    let (fm, fe, ft) = match f.kind {
      0 => {
        let mut m2 = c.m.0.clone();
        m2.push(gi as u8);
        (m2, c.epoch.0.clone(), ft)
      }
      1 => {
        let mut e2 = c.epoch.0.clone();
        e2.push(gi as u8 + 1);
        (c.m.0.clone(), e2, ft)
      }
      _ => (c.m.0.clone(), c.epoch.0.clone(), if ft == t { ft + 1 } else { ft }),
    };
    // two foreign groups must not be the same measurement (their shares would add up)
    let (fm, fe, ft) = if seen_foreign.insert((fm.clone(), fe.clone(), ft)) {
      (fm, fe, ft)
    } else {
      let mut m2 = fm.clone();
      m2.extend_from_slice(&[0xF0, gi as u8]);
      seen_foreign.insert((m2.clone(), fe.clone(), ft));
      (m2, fe, ft)
    };
    let cnt = if f.reaches { ft as usize } else { 1 + idx(f.count, ft as usize - 1) };
    let (fr, _) = reports(&fm, &fe, ft, ft as usize)?;
    let fshares: Vec<Share> = fr.iter().map(|r| r.share.clone()).collect();
    if f.reaches {
      let msg = share_recover(&fshares).map_err(|e| format!("foreign honest recovery failed: {e}"))?.get_message();
      reaching.push((gi + 1, msg));
    }
    for s in &fshares[..cnt] {
      coll.push((s.to_bytes(), gi + 1));
    }
  }
  let len = coll.len();
  for (a, b) in &c.swaps {
    coll.swap(idx(*a, len), idx(*b, len));
  }
  if c.front {
    if let Some((gid, _)) = reaching.first() {
      // stable partition: that group's shares first
      let (mut a, b): (Vec<_>, Vec<_>) = coll.iter().cloned().partition(|(_, g)| g == gid);
      a.extend(b);
      coll = a;
      st.class("foreign-group-first");
    }
  }
  let shares: Vec<Share> = coll
    .iter()
    .map(|(b, _)| Share::from_bytes(b).ok_or_else(|| format!("share with rewritten threshold does not decode: {}", hex::encode(b))))
    .collect::<Result<_, _>>()?;
  st.evals(1);
  let res = share_recover(&shares).map(|c| c.get_message());
  let desc = || {
    format!(
      "t={t} distinct target shares={d} forged threshold={forged:?} foreign={:?} collection={:?}",
      c.foreign,
      coll.iter().map(|(b, g)| format!("g{g}:{}", hx(b))).collect::<Vec<_>>()
    )
  };
  match &res {
    Ok(m) if *m == secret => {
      return Err(format!("recovery returned the target measurement's secret from fewer than t distinct shares: {}", desc()));
    }
    Ok(m) => {
      // only acceptable when a foreign group reaches its own threshold, and then it is that group's message
      if !reaching.iter().any(|(_, fm)| fm == m) {
        return Err(format!(
          "recovery succeeded with {} although no measurement in the collection reaches its threshold (or returned a message belonging to nobody): {}",
          hx(m),
          desc()
        ));
      }
      st.class("ok=foreign-group-at-threshold");
    }
    Err(_) => {
      st.class("err");
    }
  }
  if reaching.is_empty() {
    st.class("no-group-reaches-threshold");
  } else {
    st.class("a-foreign-group-reaches-threshold");
  }
  if forged.is_some() {
    st.class(match forged {
      Some(v) if v < t => "forged-threshold-smaller",
      _ => "forged-threshold-larger",
    });
  }
  if d == t as usize - 1 && (!c.dups.is_empty() || !c.foreign.is_empty() || forged.is_some()) {
    st.nontrivial(&(t, d, &c.dups, forged, c.foreign.len(), fp(&c.m.0), &c.swaps));
  }
  if st.want_sample() {
    st.sample(json!({"t": t, "distinct_target_shares": d, "forged_threshold": forged, "dups": c.dups.len(), "foreign": format!("{:?}", c.foreign), "result": format!("{:?}", res.as_ref().map(|m| hx(m)))}));
  }
  Ok(())
}

// ---------------------------------------------------------------------------

#[derive(Clone, Debug, Serialize, Deserialize)]
pub struct ScanCase {
  pub m: Hx,
  pub epoch: Hx,
  pub t: u32,
  pub aux: Option<Hx>,
}

fn scan_strat(tier: Tier) -> BoxedStrategy<ScanCase> {
  (bytes(tier.pick(1200, 8000)), epoch(), prop_oneof![40 => 2u32..9, 20 => 9u32..33, 10 => 33u32..65, 1 => boundary_t()], proptest::option::of(bytes(400)))
    .prop_map(|(m, epoch, t, aux)| ScanCase { m, epoch, t, aux })
    .boxed()
}

fn scan_oracle(c: &ScanCase, st: &mut Stats) -> Result<(), String> {
  let t = c.t.max(2);
  let g = starx::mg(&c.m, t, &c.epoch);
  let rnd = starx::local_rnd(&g);
  let mut reps = Vec::new();
  for i in 0..t as usize {
    reps.push(starx::report(&g, &rnd, if i == 0 { c.aux.as_ref().map(|a| &a[..]) } else { None })?);
  }
  let shares: Vec<Share> = reps.iter().map(|r| r.share.clone()).collect();
  let r0 = share_recover(&shares).map_err(|e| format!("honest recovery failed: {e}"))?.get_message();
  let key = starx::ske_key(&r0, &c.epoch);
  let wasm = g.share_with_local_randomness().map_err(|e| e.to_string())?;
  if wasm.key != key {
    return Err("share_with_local_randomness().key differs from derive_ske_key(recovered message, epoch)".into());
  }
  // the sharing key: interpolate the inner Shamir shares through the public API
  let inner: Vec<star_sharks::Share> = shares
    .iter()
    .map(|s| {
      let b = s.to_bytes();
      let f = layout::share_fields(&b).ok_or("share layout")?;
      star_sharks::Share::try_from(&b[f.s]).map_err(|e| e.to_string())
    })
    .collect::<Result<_, String>>()?;
  let k_fe = star_sharks::Sharks(t).recover(&inner).map_err(|e| format!("inner recovery failed: {e}"))?;
  let mut needles: Vec<(&str, Vec<u8>)> = vec![
    ("client randomness (32 bytes)", rnd.to_vec()),
    ("r0 / shared message (32 bytes)", r0.clone()),
    ("encryption key (16 bytes)", key.to_vec()),
    ("sharing key as field element (24 bytes)", k_fe.clone()),
    ("sharing key (16 bytes)", k_fe[..16.min(k_fe.len())].to_vec()),
  ];
  // r1 (coins) through the public digest function; only used when the same
  // construction reproduces r0 (otherwise the derivation changed and the scan is skipped)
  let mut chk = [0u8; 32];
  sta_rs::strobe_digest(&rnd, &[&[0u8]], "star_derive_randoms", &mut chk);
  if chk.to_vec() == r0 {
    let mut r1 = [0u8; 32];
    sta_rs::strobe_digest(&rnd, &[&[1u8]], "star_derive_randoms", &mut r1);
    needles.push(("r1 / coins (32 bytes)", r1.to_vec()));
  } else {
    st.note("derivation of r0 from the client randomness is not strobe_digest(rnd,[0],star_derive_randoms): r1 scan skipped".into());
  }
  if scan_eligible(&c.m) {
    needles.push(("measurement", c.m.0.clone()));
    st.class("measurement-scanned");
  }
  for (i, r) in reps.iter().enumerate().take(3) {
    let b = r.to_bytes();
    for (name, n) in &needles {
      if !scan_eligible(n) {
        continue;
      }
      st.evals(1);
      if let Some(off) = find_sub(&b, n) {
        return Err(format!(
          "encoded report {i} contains the {name} in the clear at offset {off}: needle {} report {}",
          hex::encode(n),
          hex::encode(&b)
        ));
      }
      // also 16-byte halves of 32-byte secrets
      if n.len() == 32 {
        for half in [&n[..16], &n[16..]] {
          if scan_eligible(half) {
            if let Some(off) = find_sub(&b, half) {
              return Err(format!("encoded report {i} contains half of the {name} at offset {off}: report {}", hex::encode(&b)));
            }
          }
        }
      }
    }
  }
  st.nontrivial(&(t, fp(&c.m.0), fp(&c.epoch.0)));
  if st.want_sample() {
    st.sample(json!({"t": t, "m_len": c.m.len(), "needles": needles.iter().map(|(n, v)| format!("{n}: {}", hx(v))).collect::<Vec<_>>()}));
  }
  Ok(())
}

// ---------------------------------------------------------------------------

#[derive(Clone, Debug, Serialize, Deserialize)]
pub struct PolyCase {
  pub ms: Vec<(Hx, Hx)>,
  pub t: u32,
  pub extra: u8,
}

fn poly_strat(tier: Tier) -> BoxedStrategy<PolyCase> {
  let tmax = tier.pick(48u32, 130u32);
  (vec((bytes(100), bytes(12)), 1..4), prop_oneof![10 => Just(2u32), 50 => 3u32..10, 20 => 10u32..33, 10 => 33u32..tmax + 1, 2 => boundary_t()], 1u8..4)
    .prop_map(|(ms, t, extra)| PolyCase { ms, t, extra })
    .boxed()
}

fn poly_oracle(c: &PolyCase, st: &mut Stats) -> Result<(), String> {
  let t = c.t.max(2) as usize;
  let n = t + c.extra.max(1) as usize;
  let mut all_coeffs: Vec<(usize, BigUint)> = Vec::new();
  let mut seen_inputs = std::collections::BTreeSet::new();
  for (mi, (m, e)) in c.ms.iter().enumerate() {
    if !seen_inputs.insert((m.0.clone(), e.0.clone())) {
      continue; // the same measurement twice is the same polynomial by design
    }
    let (reps, _) = reports(m, e, t as u32, n)?;
    let mut pts: Vec<(BigUint, BigUint)> = Vec::new();
    for r in &reps {
      let b = r.share.to_bytes();
      let (x, ys) = layout::share_point(&b).ok_or("share layout")?;
      if ys.len() != 1 {
        return Err(format!("a STAR share carries {} values, expected 1", ys.len()));
      }
      if x.is_zero() {
        return Err(format!("share with evaluation point 0: {}", hex::encode(&b)));
      }
      pts.push((x, ys[0].clone()));
    }
    let xs: std::collections::BTreeSet<Vec<u8>> = pts.iter().map(|(x, _)| x.to_bytes_le()).collect();
    if xs.len() != n {
      return Err("two clients drew the same evaluation point".into());
    }
    let co = interpolate_coeffs(&pts[..t]);
    st.evals(1);
    if co[t - 1].is_zero() {
      return Err(format!("polynomial of measurement {mi} has degree < t-1 (leading coefficient 0), t={t}"));
    }
    for (i, (x, y)) in pts[t..].iter().enumerate() {
      if eval_lo_to_hi(&co, x) != *y {
        return Err(format!("share {} of measurement {mi} does not lie on the degree t-1 polynomial through the first t shares (t={t})", t + i));
      }
    }
    let mut set = std::collections::BTreeSet::new();
    for (k, cf) in co.iter().enumerate().skip(1) {
      if cf.is_zero() {
        return Err(format!("coefficient {k} of measurement {mi} is zero (t={t})"));
      }
      if !set.insert(cf.to_bytes_le()) {
        return Err(format!("coefficient {k} of measurement {mi} repeats within the polynomial (t={t})"));
      }
      all_coeffs.push((mi, cf.clone()));
    }
    if t >= 3 {
      st.nontrivial(&(t, fp(&m.0), fp(&e.0)));
    }
  }
  // across measurements no non-constant coefficient repeats
  for (i, (ma, a)) in all_coeffs.iter().enumerate() {
    for (mb, b) in &all_coeffs[i + 1..] {
      if ma != mb && a == b {
        return Err(format!("measurements {ma} and {mb} share the polynomial coefficient {a}"));
      }
    }
  }
  st.class(match t {
    2 => "t=2",
    3..=9 => "t=3-9",
    10..=32 => "t=10-32",
    _ => "t>=33",
  });
  if st.want_sample() {
    st.sample(json!({"t": t, "n": n, "measurements": c.ms.len(), "coefficients": all_coeffs.iter().take(4).map(|(m, c)| format!("m{m}:{c}")).collect::<Vec<_>>()}));
  }
  Ok(())
}


#[derive(Clone, Debug, Serialize, Deserialize)]
pub struct AdssPolyCase {
  pub t: u32,
  pub m1: Hx,
  pub m2: Hx,
  pub r1: Hx,
  pub r2: Hx,
  /// 0 = same coins, different messages; 1 = same message, different coins; 2 = both differ
  pub rel: u8,
}

fn adss_poly_strat(_t: Tier) -> BoxedStrategy<AdssPolyCase> {
  (3u32..12, bytes(80), bytes(80), bytes(40), bytes(40), 0u8..3)
    .prop_map(|(t, m1, m2, r1, r2, rel)| AdssPolyCase { t, m1, m2, r1, r2, rel })
    .boxed()
}

/// at the sharing layer: two different sharings (other message and/or other coins) never
/// share a non-constant coefficient
fn adss_poly_oracle(c: &AdssPolyCase, st: &mut Stats) -> Result<(), String> {
  let t = c.t as usize;
  let (mut m2, mut r2) = (c.m2.0.clone(), c.r2.0.clone());
  match c.rel % 3 {
    0 => r2 = c.r1.0.clone(),
    1 => m2 = c.m1.0.clone(),
    _ => {}
  }
  if m2 == c.m1.0 && r2 == c.r1.0 {
    m2.push(0x01);
  }
  let coeffs = |m: &[u8], r: &[u8]| -> Result<Vec<BigUint>, String> {
    let mut pts = Vec::new();
    for _ in 0..t + 1 {
      let b = adss::Commune::new(c.t, m.to_vec(), r.to_vec(), None).share().map_err(|e| e.to_string())?.to_bytes();
      let (x, ys) = layout::share_point(&b).ok_or("share layout")?;
      pts.push((x, ys[0].clone()));
    }
    let co = interpolate_coeffs(&pts[..t]);
    if eval_lo_to_hi(&co, &pts[t].0) != pts[t].1 {
      return Err("shares of one sharing do not lie on one polynomial".into());
    }
    Ok(co)
  };
  let c1 = coeffs(&c.m1, &c.r1)?;
  let c2 = coeffs(&m2, &r2)?;
  st.evals(1);
  let rel = ["same coins, different messages", "same message, different coins", "different message and coins"][(c.rel % 3) as usize];
  st.class(&format!("relation={rel}"));
  if c1[0] == c2[0] {
    return Err(format!("two different sharings ({rel}) have the same sharing key (constant term)"));
  }
  for (i, a) in c1.iter().enumerate().skip(1) {
    for (j, b) in c2.iter().enumerate().skip(1) {
      if a == b {
        return Err(format!(
          "two different sharings ({rel}, t={t}) share a polynomial coefficient (degree {i} of the first, degree {j} of the second): one share of the second plus the first sharing's polynomial reveals the second's key"
        ));
      }
    }
  }
  st.nontrivial(&(c.t, fp(&c.m1.0), fp(&m2), fp(&c.r1.0), fp(&r2)));
  Ok(())
}

pub fn property() -> Property {
  Property {
    id: "C02",
    level: "exploration",
    rule: "recover_below_threshold: a target sharing (t >= 2) contributes d <= t-1 distinct reports, padded with duplicates and foreign reports (other measurement / epoch / threshold, each below its own threshold, or one group reaching it), thresholds of some/all target shares rewritten to each of 0..t-1, t+1, 2^32-1, order shuffled; oracle: share_recover never returns the target secret and is Err unless a foreign group reaches its threshold (then only that group's message). report_secret_scan: every encoded report scanned at every offset for the client randomness, r0, r1, sharing key (16 and 24 byte forms), encryption key and the measurement when scan-eligible. polynomial_shape: bigint coefficient recovery from t of n >= t+1 shares: exact degree t-1, non-constant coefficients non-zero, pairwise distinct, remaining points on the polynomial, disjoint across measurements. Non-trivial: d = t-1 with padding or a forged threshold / t >= 2 / t >= 3; distinct by the generated structure.",
    assumptions: vec![
      "necessary conditions only: a scheme could satisfy all of them and still leak",
      "scan needles are >= 16 bytes with >= 12 distinct byte values so that a chance occurrence has negligible probability",
      "r1 is derived with the public strobe_digest only when the same construction reproduces r0 (else that scan is skipped and noted)",
    ],
    subs: vec![
      prop_sub("recover_below_threshold", 2000, 80000, below_strat, below_oracle),
      prop_sub("report_secret_scan", 1500, 60000, scan_strat, scan_oracle),
      prop_sub("polynomial_shape", 600, 12000, poly_strat, poly_oracle),
      prop_sub("sharing_layer_polynomials", 800, 16000, adss_poly_strat, adss_poly_oracle),
    ],
  }
}
