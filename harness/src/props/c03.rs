//! C03 Associated data stays confidential below threshold (no keystream reuse).

use crate::engine::*;
use crate::gens::*;
use crate::layout;
use crate::starx;
use proptest::collection::vec;
use proptest::prelude::*;
use serde::{Deserialize, Serialize};
use serde_json::json;
use sta_rs::{Ciphertext, Message};

/// Strobe-128 duplex block (rate) in bytes: 1600/8 - 2*128/8 - 2
pub const DUPLEX_BLOCK: usize = 166;
pub const F9_SIG: &str = "F9-same-measurement-xor-within-duplex-block";

#[derive(Clone, Debug, Serialize, Deserialize)]
pub enum AuxRel {
  /// unrelated content of the given length
  Fresh { len: u32, seed: u64 },
  /// copy of the first aux up to `keep` bytes (mapped), then different bytes, total length `len`
  SharedPrefix { keep: u16, len: u32, seed: u64 },
  /// same length as the first aux, differing in exactly one byte at a mapped offset
  OneByte { at: u16, delta: u8 },
}

#[derive(Clone, Debug, Serialize, Deserialize)]
pub struct Case {
  pub m: Hx,
  pub epoch: Hx,
  pub t: u32,
  pub first_aux: Hx,
  pub others: Vec<AuxRel>,
  /// a second measurement for the cross-measurement comparison
  pub other_m: Hx,
}

fn aux_len() -> BoxedStrategy<u32> {
  // mostly up to a few cipher blocks; now and then several KiB (page- / segment-sized structure)
  // ... and, rarely, payloads around and beyond 64 KiB (16-bit length arithmetic)
  prop_oneof![200 => 1u32..8, 300 => 8u32..150, 200 => 150u32..200, 300 => 200u32..520, 100 => 520u32..901, 20 => 901u32..4000, 30 => 4000u32..4200, 20 => 4200u32..12000, 3 => 65400u32..65700, 2 => 65700u32..140000].boxed()
}

fn strat(_t: Tier) -> BoxedStrategy<Case> {
  (
    prop_oneof![3 => bytes(120), 1 => bytes(400)],
    epoch(),
    prop_oneof![1 => Just(2u32), 6 => 3u32..9],
    (aux_len(), any::<u64>()).prop_map(|(l, s)| Hx(expand(s, l as usize))),
    vec(
      prop_oneof![
        2 => (aux_len(), any::<u64>()).prop_map(|(len, seed)| AuxRel::Fresh { len, seed }),
        3 => (any::<u16>(), aux_len(), any::<u64>()).prop_map(|(keep, len, seed)| AuxRel::SharedPrefix { keep, len, seed }),
        2 => (any::<u16>(), 1u8..=255).prop_map(|(at, delta)| AuxRel::OneByte { at, delta }),
      ],
      1..5,
    ),
    bytes(60),
  )
    .prop_map(|(m, epoch, t, first_aux, others, other_m)| Case {
      m,
      epoch,
      t,
      first_aux,
      others,
      other_m,
    })
    .boxed()
}

fn build_aux(first: &[u8], r: &AuxRel) -> Vec<u8> {
  match r {
    AuxRel::Fresh { len, seed } => expand(*seed, (*len).max(1) as usize),
    AuxRel::SharedPrefix { keep, len, seed } => {
      let len = (*len).max(1) as usize;
      let k = idx(*keep, first.len().min(len) + 1);
      let mut v = first[..k].to_vec();
      let tail = expand(*seed, len - k.min(len));
      v.extend_from_slice(&tail);
      v.truncate(len);
      if v.len() > k && k < first.len() && v[k] == first[k] {
        v[k] ^= 0x5A; // make the first byte after the shared prefix differ
      }
      v
    }
    AuxRel::OneByte { at, delta } => {
      let mut v = first.to_vec();
      if !v.is_empty() {
        let i = idx(*at, v.len());
        v[i] = v[i].wrapping_add((*delta).max(1));
      }
      v
    }
  }
}

/// positions i in [from, to) where C[i]^C'[i] == P[i]^P'[i]; returns (count, longest run)
fn relation(c1: &[u8], c2: &[u8], p1: &[u8], p2: &[u8], from: usize, to: usize) -> (usize, usize) {
  let mut count = 0;
  let mut run = 0;
  let mut best = 0;
  for i in from..to {
    if c1[i] ^ c2[i] == p1[i] ^ p2[i] {
      count += 1;
      run += 1;
      best = best.max(run);
    } else {
      run = 0;
    }
  }
  (count, best)
}

fn chance_bound(n: usize) -> usize {
  let mean = n as f64 / 256.0;
  (mean + 7.0 * mean.sqrt() + 4.0).ceil() as usize
}

fn oracle(c: &Case, st: &mut Stats) -> Result<(), String> {
  let t = c.t.max(2);
  let g = starx::mg(&c.m, t, &c.epoch);
  let rnd = starx::local_rnd(&g);
  let mut auxes: Vec<Vec<u8>> = vec![c.first_aux.0.clone()];
  for r in &c.others {
    let a = build_aux(&c.first_aux, r);
    if !auxes.contains(&a) && !a.is_empty() {
      auxes.push(a);
    }
  }
  // strictly fewer than t reports exist at all: nothing here reaches the threshold
  let nrep = auxes.len().min(t as usize - 1).max(1);
  let auxes = &auxes[..nrep.max(1)];
  let mut reps: Vec<(Message, Vec<u8>, Vec<u8>)> = Vec::new(); // (report, payload, ciphertext)
  let mut overhead_seen: Option<usize> = None;
  for a in auxes {
    let r = starx::report(&g, &rnd, Some(a))?;
    let payload = layout::build_payload(&c.m, Some(a));
    let ct = r.ciphertext.to_bytes();
    // the ciphertext may be longer than the payload by a constant (nonce, tag), nothing else
    if ct.len() < payload.len() {
      return Err(format!("ciphertext ({} bytes) is shorter than the payload ({} bytes)", ct.len(), payload.len()));
    }
    let overhead = ct.len() - payload.len();
    match overhead_seen {
      None => overhead_seen = Some(overhead),
      Some(o) if o != overhead => {
        return Err(format!(
          "ciphertext overhead over the payload varies between reports of one case ({o} vs {overhead} bytes): the length reveals more than the length of the associated data"
        ))
      }
      _ => {}
    }
    reps.push((r, payload, ct));
  }
  // (a) never in the clear
  for (i, (r, _, _)) in reps.iter().enumerate() {
    let b = r.to_bytes();
    st.evals(1);
    let a = &auxes[i];
    if scan_eligible(a) {
      st.class("aux-scanned");
      if let Some(off) = find_sub(&b, a) {
        return Err(format!("associated data appears in the clear at offset {off} of the encoded report: aux {} report {}", hex::encode(a), hex::encode(&b)));
      }
      // also any 16-byte slice of it (every 4th offset, and the very last 16 bytes)
      let last = a.len() - 16;
      // very long associated data: every 4th offset of its first and last KiB, and a spread of 128 offsets in between
      let stride = if a.len() > 8192 { (a.len() / 128) & !3 } else { 4 };
      let offsets = (0..=last).step_by(4).filter(|o| a.len() <= 8192 || *o < 1024 || *o + 1024 > last || *o % stride.max(4) == 0);
      for w in offsets.chain(std::iter::once(last)).map(|o| &a[o..o + 16]).filter(|w| scan_eligible(w)) {
        if let Some(off) = find_sub(&b, w) {
          return Err(format!("16 bytes of the associated data appear in the clear at offset {off} of the encoded report {}", hex::encode(&b)));
        }
      }
    }
  }
  // (b) no value carried in the report - and no trivial constant - decrypts the payload
  for (r, payload, ct) in reps.iter() {
    let cmp = payload.len().min(32);
    if cmp >= 12 && ct.len() >= cmp {
      let head = Ciphertext::from_bytes(&ct[..cmp]);
      for k in [[0u8; 16], [0xFFu8; 16], [1u8; 16]] {
        st.evals(1);
        if head.decrypt(&k, "star_encrypt")[..] == payload[..cmp] {
          return Err(format!("the payload decrypts under the constant key {}: report {}", hex::encode(k), hex::encode(r.to_bytes())));
        }
      }
      for v in [[0u8; 32], [0xFFu8; 32]] {
        let k = starx::ske_key(&v, &c.epoch);
        if head.decrypt(&k, "star_encrypt")[..] == payload[..cmp] {
          return Err(format!("the payload decrypts under the key derived from a constant 32-byte value: report {}", hex::encode(r.to_bytes())));
        }
      }
    }
  }
  for (r, payload, ct) in reps.iter().take(2) {
    let b = r.to_bytes();
    let cmp = payload.len().min(32);
    if cmp >= 12 {
      let head = Ciphertext::from_bytes(&ct[..cmp]);
      // very long reports: every window outside the ciphertext, and the first / last 2 KiB of it
      let ctr = layout::report_fields(&b).map(|f| f.ct).unwrap_or(0..0);
      let skip = |o: usize| b.len() > 16384 && o >= ctr.start + 2048 && o + 2048 < ctr.end;
      for (o, w) in b.windows(16).enumerate() {
        if skip(o) {
          continue;
        }
        st.evals(1);
        if head.decrypt(w, "star_encrypt")[..] == payload[..cmp] {
          return Err(format!("a 16-byte value carried in the report decrypts its payload: key window {} report {}", hex::encode(w), hex::encode(&b)));
        }
      }
      for (o, w) in b.windows(32).enumerate() {
        if skip(o) {
          continue;
        }
        st.evals(1);
        let k = starx::ske_key(w, &c.epoch);
        if head.decrypt(&k, "star_encrypt")[..] == payload[..cmp] {
          return Err(format!(
            "a 32-byte value carried in the report, run through derive_ske_key, decrypts its payload: window {} report {}",
            hex::encode(w),
            hex::encode(&b)
          ));
        }
      }
      st.class("window-decryption-tried");
    }
  }
  // (b') ... nor works as a pad: no 8 bytes of the keystream (ciphertext xor payload) of any
  // report of the case occur anywhere outside the ciphertexts of the case's reports
  {
    let mut outside: std::collections::HashSet<[u8; 8]> = std::collections::HashSet::new();
    for (r, _, _) in reps.iter() {
      let b = r.to_bytes();
      let ctr = layout::report_fields(&b).map(|f| f.ct).unwrap_or(0..0);
      for (o, w) in b.windows(8).enumerate() {
        if o + 8 <= ctr.start || o >= ctr.end {
          outside.insert(w.try_into().unwrap());
        }
      }
    }
    for (r, payload, ct) in reps.iter() {
      let over = ct.len() - payload.len();
      for shift in if over == 0 { vec![0] } else { vec![0, over] } {
        let ks: Vec<u8> = payload.iter().zip(ct[shift..].iter()).map(|(p, c)| p ^ c).collect();
        st.evals(1);
        for (o, w) in ks.windows(8).enumerate() {
          let w: [u8; 8] = w.try_into().unwrap();
          if outside.contains(&w) {
            return Err(format!(
              "8 bytes carried in a report outside its ciphertext ({}) equal ciphertext xor payload at payload offset {o}: whoever holds the report can strip the cipher from that part of the payload; report {}",
              hex::encode(w),
              hex::encode(r.to_bytes())
            ));
          }
        }
      }
    }
    st.class("pad-scan");
  }
  // (c) ciphertext difference vs. plaintext difference, all pairs of one measurement
  for i in 0..reps.len() {
    for j in i + 1..reps.len() {
      let (_, p1, c1) = &reps[i];
      let (_, p2, c2) = &reps[j];
      let n = p1.len().min(p2.len()).min(c1.len()).min(c2.len());
      let d = match (0..n).find(|k| p1[*k] != p2[*k]) {
        Some(d) => d,
        None => continue, // one payload is a prefix of the other: nothing to compare
      };
      st.evals(1);
      let block_end = ((d / DUPLEX_BLOCK + 1) * DUPLEX_BLOCK).min(n);
      let (in_cnt, in_run) = relation(c1, c2, p1, p2, d, block_end);
      let (out_cnt, out_run) = relation(c1, c2, p1, p2, block_end, n);
      let inside = block_end - d;
      let outside = n - block_end;
      if outside > 0 {
        st.class("pair-spans-more-than-one-block-after-difference");
      }
      if n - d >= 16 {
        st.nontrivial(&(p1, p2));
      }
      if outside > 0 && (out_run >= 8 || out_cnt > chance_bound(outside)) {
        return Err(format!(
          "ciphertext difference equals plaintext difference BEYOND the duplex block of the first difference: {out_cnt} of {outside} offsets after offset {block_end} (longest run {out_run}); payload lengths {} / {}, first difference at {d}; C1 {} C2 {}",
          p1.len(),
          p2.len(),
          hex::encode(c1),
          hex::encode(c2)
        ));
      }
      if inside >= 3 && (in_run >= 8.min(inside) || in_cnt > chance_bound(inside)) {
        // the recorded finding: same measurement, confined to the duplex block of the first difference
        let (p1c, p2c, c1c, c2c) = (p1.clone(), p2.clone(), c1.clone(), c2.clone());
        st.known(F9_SIG, move || {
          json!({"first_difference": d, "block_end": block_end, "matching_offsets": in_cnt, "compared": inside,
                 "payload1": hx(&p1c), "payload2": hx(&p2c), "ciphertext1": hx(&c1c), "ciphertext2": hx(&c2c)})
        });
        st.class("known-F9-relation-inside-block");
      } else if inside >= 16 {
        st.class("no-relation-inside-block");
      }
    }
  }
  // different measurements must show no relation anywhere
  {
    let mm = if c.m.is_empty() { vec![0x44] } else { c.m.0.clone() };
    // same length as the first measurement so that payload offsets line up
    let mut m2 = c.other_m.0.clone();
    m2.resize(mm.len(), 0x33);
    if m2 == mm {
      m2[0] ^= 1;
    }
    let g1 = starx::mg(&mm, t, &c.epoch);
    let g2 = starx::mg(&m2, t, &c.epoch);
    let a1 = &auxes[0];
    let a2 = auxes.get(1).cloned().unwrap_or_else(|| {
      let mut v = a1.clone();
      v[0] ^= 1;
      v
    });
    let r1 = starx::report(&g1, &starx::local_rnd(&g1), Some(a1))?;
    let r2 = starx::report(&g2, &starx::local_rnd(&g2), Some(&a2))?;
    let p1 = layout::build_payload(&mm, Some(a1));
    let p2 = layout::build_payload(&m2, Some(&a2));
    let (c1, c2) = (r1.ciphertext.to_bytes(), r2.ciphertext.to_bytes());
    let n = p1.len().min(p2.len()).min(c1.len()).min(c2.len());
    let (cnt, run) = relation(&c1, &c2, &p1, &p2, 0, n);
    st.evals(1);
    if n >= 16 && (run >= 8 || cnt > chance_bound(n)) {
      return Err(format!(
        "ciphertext difference equals plaintext difference between reports of DIFFERENT measurements: {cnt} of {n} offsets (longest run {run}); C1 {} C2 {}",
        hex::encode(&c1),
        hex::encode(&c2)
      ));
    }
    st.class("cross-measurement-pair");
  }
  if st.want_sample() {
    st.sample(json!({"t": t, "m_len": c.m.len(), "aux_lens": auxes.iter().map(|a| a.len()).collect::<Vec<_>>(), "relations": format!("{:?}", c.others)}));
  }
  Ok(())
}

pub fn property() -> Property {
  Property {
    id: "C03",
    level: "exploration",
    rule: "generated (measurement, epoch, t >= 2, 2-5 clients of one measurement whose associated data are unrelated / share a prefix of generated length / differ in one byte, lengths 1..900 so that payloads span 1-6 Strobe duplex blocks; fewer than t reports exist). Oracles: (a) scan-eligible associated data (and 16-byte slices) never occur in the encoded report; (b) no 16-byte window of the report, and no 32-byte window run through derive_ske_key, decrypts the payload, and no 8 bytes outside the ciphertexts equal ciphertext xor payload at any offset (a carried pad); (c) for every pair, offsets where C xor C' = P xor P' beyond the duplex block of the first difference stay within a chance bound (N/256 + 7 sqrt(N/256) + 4, no run >= 8), and likewise everywhere for a pair of different measurements; the relation INSIDE that block for same-measurement pairs is the recorded finding F9. Non-trivial: a pair with differing associated data compared over >= 16 offsets; distinct by the two payloads.",
    assumptions: vec![
      "confidentiality is only sampled through these necessary conditions",
      "Strobe-128 duplex block = 166 bytes; the encryption operation starts on a block boundary",
    ],
    subs: vec![prop_sub("aux_confidentiality", 6000, 400000, strat, oracle)],
  }
}
