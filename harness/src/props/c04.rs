//! C04 Tags and keys are a function of exactly (measurement, epoch, threshold).

use crate::engine::*;
use crate::gens::*;
use crate::layout;
use crate::starx;
use proptest::collection::vec;
use proptest::prelude::*;
use serde::{Deserialize, Serialize};
use serde_json::json;
use sta_rs::{share_recover, Share};

#[derive(Clone, Debug, Serialize, Deserialize, PartialEq, Eq, Hash)]
pub struct Triple {
  pub m: Hx,
  pub e: Hx,
  pub t: u32,
}

/// what a client derives for a triple (t must be small enough to share)
struct Derived {
  rnd: [u8; 32],
  tag: Vec<u8>,
  key: [u8; 16],
}

fn derive(tr: &Triple) -> Result<Derived, String> {
  let g = starx::mg(&tr.m, tr.t, &tr.e);
  let rnd = starx::local_rnd(&g);
  let w = g.share_with_local_randomness().map_err(|e| format!("share_with_local_randomness: {e}"))?;
  Ok(Derived {
    rnd,
    tag: w.tag.to_vec(),
    key: w.key,
  })
}

fn must_differ(a: &Triple, b: &Triple, why: &str, st: &mut Stats) -> Result<(), String> {
  if a == b {
    return Ok(());
  }
  st.evals(1);
  let ga = starx::mg(&a.m, a.t, &a.e);
  let gb = starx::mg(&b.m, b.t, &b.e);
  let (ra, rb) = (starx::local_rnd(&ga), starx::local_rnd(&gb));
  if ra == rb {
    return Err(format!("different triples ({why}) derive the same client randomness: {a:?} vs {b:?} -> {}", hx(&ra)));
  }
  // tags and keys need a sharing, which materialises a polynomial of degree t-1
  if a.t <= 200 && b.t <= 200 {
    let (da, db) = (derive(a)?, derive(b)?);
    if da.tag == db.tag {
      return Err(format!("different triples ({why}) derive the same tag: {a:?} vs {b:?} -> {}", hx(&da.tag)));
    }
    if da.key == db.key {
      return Err(format!("different triples ({why}) derive the same encryption key: {a:?} vs {b:?}"));
    }
    if da.rnd != ra {
      return Err("sample_local_randomness is not deterministic".into());
    }
  }
  st.nontrivial(&(a, b));
  Ok(())
}

#[derive(Clone, Debug, Serialize, Deserialize)]
pub struct SameCase {
  pub tr: Triple,
  pub aux: Vec<Option<Hx>>,
  pub sel: SelSpec,
}

fn same_strat(tier: Tier) -> BoxedStrategy<SameCase> {
  (bytes(tier.pick(600, 4000)), epoch(), prop_oneof![1 => Just(1u32), 6 => 2u32..9, 2 => 9u32..25], vec(proptest::option::of(bytes(200)), 2..7), sel_spec())
    .prop_map(|(m, e, t, aux, sel)| SameCase { tr: Triple { m, e, t }, aux, sel })
    .boxed()
}

/// independent clients agreeing on the triple: equal randomness, tags, keys;
/// distinct evaluation points; any t shares combine
fn same_oracle(c: &SameCase, st: &mut Stats) -> Result<(), String> {
  let tr = &c.tr;
  let t = tr.t.max(1);
  let n = c.aux.len().max(t as usize + 1);
  // the measurement wrapper means the bytes it was made from, whichever constructor made it:
  // the generator built from `new(bytes)` and the one the helper builds (From<&str> for about
  // half of the UTF-8 measurements) derive the same randomness
  {
    let sm = sta_rs::SingleMeasurement::new(&tr.m);
    if sm.as_slice() != &tr.m[..] || sm.as_vec() != tr.m.0 || sm.byte_len() != tr.m.len() || sm.is_empty() != tr.m.is_empty() {
      return Err(format!("SingleMeasurement accessors disagree with the bytes it was made from: {}", hx(&tr.m)));
    }
    let via_new = sta_rs::MessageGenerator::new(sm, t, &tr.e);
    let via_helper = starx::mg(&tr.m, t, &tr.e);
    if starx::local_rnd(&via_new) != starx::local_rnd(&via_helper) {
      return Err(format!("SingleMeasurement::new(bytes) and SingleMeasurement::from(str) of the same bytes give different client randomness: {}", hx(&tr.m)));
    }
    if std::str::from_utf8(&tr.m).is_ok() {
      st.class("measurement-is-utf8(constructor routes compared)");
    }
  }
  let mut tags = Vec::new();
  let mut keys = Vec::new();
  let mut rnds = Vec::new();
  let mut shares: Vec<Share> = Vec::new();
  let mut reports = Vec::new();
  // two more clients run on threads of their own (evaluation points must still be distinct)
  let threaded: Vec<Result<Vec<u8>, String>> = std::thread::scope(|sc| {
    let hs: Vec<_> = (0..2)
      .map(|_| {
        let tr = &*tr;
        sc.spawn(move || {
          let g = starx::mg(&tr.m, t, &tr.e);
          let rnd = starx::local_rnd(&g);
          starx::report(&g, &rnd, None).map(|r| r.share.to_bytes())
        })
      })
      .collect();
    hs.into_iter().map(|h| h.join().expect("client thread")).collect()
  });
  for r in threaded {
    let b = r?;
    shares.push(Share::from_bytes(&b).ok_or("share of a threaded client does not decode")?);
  }
  for i in 0..n {
    // every client builds its own generator from scratch
    let g = starx::mg(&tr.m, t, &tr.e);
    let rnd = starx::local_rnd(&g);
    rnds.push(rnd);
    if i % 2 == 0 {
      let aux = c.aux[i % c.aux.len()].as_ref();
      let r = starx::report(&g, &rnd, aux.map(|a| &a[..]))?;
      tags.push(r.tag.clone());
      shares.push(r.share.clone());
      reports.push((r, aux.cloned()));
    } else {
      let w = g.share_with_local_randomness().map_err(|e| e.to_string())?;
      tags.push(w.tag.to_vec());
      keys.push(w.key);
      shares.push(w.share.clone());
    }
  }
  st.evals(n as u64);
  // what the output buffer held before the call must not matter (a client may reuse it)
  {
    let g = starx::mg(&tr.m, t, &tr.e);
    let mut dirty = [0u8; 32];
    for (i, b) in dirty.iter_mut().enumerate() {
      *b = (fp(&tr.m.0) as u8).wrapping_add(i as u8) | 1;
    }
    g.sample_local_randomness(&mut dirty);
    if dirty != rnds[0] {
      return Err(format!("sample_local_randomness depends on the previous contents of the output buffer: {} vs {}", hx(&dirty), hx(&rnds[0])));
    }
    g.sample_local_randomness(&mut dirty);
    if dirty != rnds[0] {
      return Err("sampling the local randomness twice into the same buffer changes it".into());
    }
    let mut k1 = [0x5Au8; 16];
    let mut k2 = [0u8; 16];
    sta_rs::derive_ske_key(&rnds[0], &tr.e, &mut k1);
    sta_rs::derive_ske_key(&rnds[0], &tr.e, &mut k2);
    if k1 != k2 {
      return Err("derive_ske_key depends on the previous contents of the output buffer".into());
    }
    let mut d1 = [0xFFu8; 32];
    let mut d2 = [0u8; 32];
    sta_rs::strobe_digest(&tr.m, &[&tr.e], "verif", &mut d1);
    sta_rs::strobe_digest(&tr.m, &[&tr.e], "verif", &mut d2);
    if d1 != d2 {
      return Err("strobe_digest depends on the previous contents of the output buffer".into());
    }
  }
  if rnds.iter().any(|r| *r != rnds[0]) {
    return Err(format!("clients agreeing on {tr:?} derived different randomness"));
  }
  if tags.iter().any(|x| *x != tags[0]) {
    return Err(format!("clients agreeing on {tr:?} derived different tags: {:?}", tags.iter().map(|t| hx(t)).collect::<Vec<_>>()));
  }
  if keys.iter().any(|k| *k != keys[0]) {
    return Err(format!("clients agreeing on {tr:?} derived different keys"));
  }
  if tags[0].len() != 32 {
    return Err(format!("tag is {} bytes", tags[0].len()));
  }
  // evaluation points pairwise distinct
  let mut xs = std::collections::BTreeSet::new();
  for s in &shares {
    let b = s.to_bytes();
    let (x, _) = layout::share_point(&b).ok_or("share layout")?;
    if !xs.insert(x.to_bytes_le()) {
      return Err(format!("two independent clients produced the same evaluation point {x}"));
    }
  }
  // mutually combinable: a generated selection of t of them recovers, and the
  // key of the WASM path decrypts the reports of the Message path
  let sel = c.sel.build(shares.len(), t as usize);
  let chosen: Vec<Share> = sel.iter().map(|i| shares[*i].clone()).collect();
  let msg = share_recover(&chosen)
    .map_err(|e| format!("shares of independent clients do not combine (selection {:?}, t={t}): {e}", sel))?
    .get_message();
  let key = starx::ske_key(&msg, &tr.e);
  if let Some(k) = keys.first() {
    if *k != key {
      return Err("the key handed to the client differs from the key derived from the recovered message".into());
    }
  }
  for (r, aux) in &reports {
    let plain = r.ciphertext.decrypt(&key, "star_encrypt");
    let want = layout::build_payload(&tr.m, aux.as_ref().map(|a| &a[..]));
    if plain != want {
      return Err(format!("report does not decrypt under the common key: got {} want {}", hx(&plain), hx(&want)));
    }
  }
  if n >= 2 {
    st.nontrivial(&(tr, n, &sel));
  }
  if st.want_sample() {
    st.sample(json!({"triple": format!("{tr:?}"), "clients": n, "tag": hx(&tags[0]), "selection": sel}));
  }
  Ok(())
}

#[derive(Clone, Debug, Serialize, Deserialize)]
pub enum Rel {
  /// m||e equal as a concatenation, split point moved
  BoundaryShift { s: Hx, i: u16, j: u16 },
  /// one component emptied / moved entirely to the other side
  EmptyComponent { which: u8 },
  /// epoch (which=0) or measurement (which=1) is a proper prefix of the other triple's
  Prefix { which: u8, cut: u16 },
  /// thresholds differ in exactly one bit
  ThresholdBit { bit: u8 },
  /// appended zero byte(s)
  ZeroPad { which: u8, n: u8 },
  /// exactly one byte of the epoch (which=0) or measurement (which=1) changed
  ByteChange { which: u8, at: u16, delta: u8 },
  Unrelated { other: Triple },
  /// two components trade places through an encoding of the threshold: the epoch (which even) or the
  /// measurement (which odd) of one triple is the 4-byte LE / 4-byte BE / decimal text of the
  /// other triple's threshold, and vice versa
  TradePlaces { which: u8, other_t: u32 },
  /// bytes move across the epoch / threshold boundary: the tail of one epoch (1-3 bytes) becomes the
  /// low-order (LE) or high-order (BE) bytes of the other triple's threshold
  EpochThresholdShift { take: u8, big_endian: bool },
}

#[derive(Clone, Debug, Serialize, Deserialize)]
pub struct DiffCase {
  pub tr: Triple,
  pub rel: Rel,
}

fn triple(max: usize) -> BoxedStrategy<Triple> {
  (bytes(max), epoch(), prop_oneof![6 => 1u32..33, 1 => 33u32..200, 1 => any::<u32>()]).prop_map(|(m, e, t)| Triple { m, e, t }).boxed()
}

fn diff_strat(_t: Tier) -> BoxedStrategy<DiffCase> {
  let rel = prop_oneof![
    3 => (small_bytes(24), any::<u16>(), any::<u16>()).prop_map(|(s, i, j)| Rel::BoundaryShift { s, i, j }),
    1 => (0u8..4).prop_map(|which| Rel::EmptyComponent { which }),
    2 => (0u8..2, any::<u16>()).prop_map(|(which, cut)| Rel::Prefix { which, cut }),
    3 => (0u8..32).prop_map(|bit| Rel::ThresholdBit { bit }),
    1 => (0u8..2, 1u8..4).prop_map(|(which, n)| Rel::ZeroPad { which, n }),
    3 => (0u8..2, any::<u16>(), 1u8..=255).prop_map(|(which, at, delta)| Rel::ByteChange { which, at, delta }),
    2 => triple(200).prop_map(|other| Rel::Unrelated { other }),
    2 => (0u8..6, prop_oneof![3 => 1u32..9, 1 => any::<u32>()]).prop_map(|(which, other_t)| Rel::TradePlaces { which, other_t }),
    2 => (1u8..4, any::<bool>()).prop_map(|(take, big_endian)| Rel::EpochThresholdShift { take, big_endian }),
  ];
  (triple(300), rel).prop_map(|(tr, rel)| DiffCase { tr, rel }).boxed()
}

fn related(c: &DiffCase) -> (Triple, Triple, &'static str) {
  let a = c.tr.clone();
  match &c.rel {
    Rel::BoundaryShift { s, i, j } => {
      let s = if s.len() < 2 { Hx(vec![1, 2, 3]) } else { s.clone() };
      let i = idx(*i, s.len() + 1);
      let mut j = idx(*j, s.len() + 1);
      if i == j {
        j = (j + 1) % (s.len() + 1);
      }
      (
        Triple { m: Hx(s[..i].to_vec()), e: Hx(s[i..].to_vec()), t: a.t },
        Triple { m: Hx(s[..j].to_vec()), e: Hx(s[j..].to_vec()), t: a.t },
        "boundary-shift",
      )
    }
    Rel::EmptyComponent { which } => {
      let mut cat = a.m.0.clone();
      cat.extend_from_slice(&a.e);
      if cat.is_empty() {
        cat.push(7);
      }
      let b = match which {
        0 => Triple { m: Hx(cat.clone()), e: Hx(vec![]), t: a.t },
        1 => Triple { m: Hx(vec![]), e: Hx(cat.clone()), t: a.t },
        2 => Triple { m: a.e.clone(), e: a.m.clone(), t: a.t },
        _ => Triple { m: Hx(vec![]), e: Hx(vec![]), t: a.t },
      };
      let a2 = if a.m.is_empty() && a.e.is_empty() { Triple { m: Hx(vec![9]), e: Hx(vec![]), t: a.t } } else { a };
      (a2, b, "empty-component")
    }
    Rel::Prefix { which, cut } => {
      let mut b = a.clone();
      if *which == 0 {
        let mut e = a.e.0.clone();
        if e.is_empty() {
          e.push(1);
        }
        let k = idx(*cut, e.len());
        b.e = Hx(e[..k].to_vec());
        (Triple { e: Hx(e), ..a }, b, "epoch-prefix")
      } else {
        let mut m = a.m.0.clone();
        if m.is_empty() {
          m.push(1);
        }
        let k = idx(*cut, m.len());
        b.m = Hx(m[..k].to_vec());
        (Triple { m: Hx(m), ..a }, b, "measurement-prefix")
      }
    }
    Rel::ThresholdBit { bit } => {
      let b = Triple { t: a.t ^ (1u32 << (bit % 32)), ..a.clone() };
      (a, b, "threshold-one-bit")
    }
    Rel::ZeroPad { which, n } => {
      let mut b = a.clone();
      if *which == 0 {
        b.m.0.extend(vec![0u8; *n as usize]);
      } else {
        b.e.0.extend(vec![0u8; *n as usize]);
      }
      (a, b, "zero-padded")
    }
    Rel::ByteChange { which, at, delta } => {
      let mut a2 = a.clone();
      let f = if *which == 0 { &mut a2.e } else { &mut a2.m };
      if f.0.is_empty() {
        f.0.push(0x80);
      }
      let mut b = a2.clone();
      let g = if *which == 0 { &mut b.e } else { &mut b.m };
      let i = idx(*at, g.0.len());
      g.0[i] = g.0[i].wrapping_add((*delta).max(1));
      (a2, b, if *which == 0 { "epoch-one-byte" } else { "measurement-one-byte" })
    }
    Rel::Unrelated { other } => (a, other.clone(), "unrelated"),
    Rel::EpochThresholdShift { take, big_endian } => {
      // a = (m, e0 ++ x, t) with a small t; b = (m, e0, t') where t' spells x followed by t's
      // significant bytes (LE) or t's significant bytes followed by x (BE)
      let mut e = a.e.0.clone();
      while e.len() < *take as usize + 1 {
        e.push(0x31 + e.len() as u8);
      }
      let k = (*take as usize).min(3);
      let (e0, x) = e.split_at(e.len() - k);
      let t_small = (a.t % 200).max(1); // one significant byte
      let mut bytes: Vec<u8> = if *big_endian {
        let mut v = vec![t_small as u8];
        v.extend_from_slice(x);
        v
      } else {
        let mut v = x.to_vec();
        v.push(t_small as u8);
        v
      };
      bytes.resize(4, 0);
      let t2 = if *big_endian {
        // significant bytes first: value = t_small * 256^k + x (as big-endian digits)
        let mut v: u32 = t_small;
        for b in x {
          v = (v << 8) | *b as u32;
        }
        v
      } else {
        u32::from_le_bytes([bytes[0], bytes[1], bytes[2], bytes[3]])
      };
      (Triple { m: a.m.clone(), e: Hx(e.clone()), t: t_small }, Triple { m: a.m.clone(), e: Hx(e0.to_vec()), t: t2 }, "epoch-threshold-boundary-shift")
    }
    Rel::TradePlaces { which, other_t } => {
      let t1 = a.t;
      let t2 = if *other_t == t1 { t1.wrapping_add(1) } else { *other_t };
      let enc = |t: u32| -> Hx {
        Hx(match which / 2 {
          0 => t.to_le_bytes().to_vec(),
          1 => t.to_be_bytes().to_vec(),
          _ => t.to_string().into_bytes(),
        })
      };
      if which % 2 == 0 {
        (Triple { m: a.m.clone(), e: enc(t2), t: t1 }, Triple { m: a.m.clone(), e: enc(t1), t: t2 }, "epoch-and-threshold-trade-places")
      } else {
        (Triple { m: enc(t2), e: a.e.clone(), t: t1 }, Triple { m: enc(t1), e: a.e.clone(), t: t2 }, "measurement-and-threshold-trade-places")
      }
    }
  }
}

fn diff_oracle(c: &DiffCase, st: &mut Stats) -> Result<(), String> {
  let (a, b, why) = related(c);
  st.class(&format!("relation={why}"));
  must_differ(&a, &b, why, st)?;
  if st.want_sample() {
    st.sample(json!({"a": format!("{a:?}"), "b": format!("{b:?}"), "relation": why}));
  }
  Ok(())
}

#[derive(Clone, Debug, Serialize, Deserialize)]
pub struct SplitCase {
  pub s: Hx,
  pub t: u32,
}

/// enumerated family: every split of one string against every other split
fn split_oracle(c: &SplitCase, st: &mut Stats) -> Result<(), String> {
  let s = &c.s;
  let mut seen: std::collections::BTreeMap<Vec<u8>, usize> = std::collections::BTreeMap::new();
  let mut seen_tag: std::collections::BTreeMap<Vec<u8>, usize> = std::collections::BTreeMap::new();
  let mut seen_key: std::collections::BTreeMap<Vec<u8>, usize> = std::collections::BTreeMap::new();
  for i in 0..=s.len() {
    let tr = Triple { m: Hx(s[..i].to_vec()), e: Hx(s[i..].to_vec()), t: c.t };
    let d = derive(&tr)?;
    st.evals(1);
    for (what, map, v) in [("randomness", &mut seen, d.rnd.to_vec()), ("tag", &mut seen_tag, d.tag.clone()), ("key", &mut seen_key, d.key.to_vec())] {
      if let Some(j) = map.insert(v, i) {
        return Err(format!(
          "splits {j} and {i} of the string {} (measurement||epoch equal as a concatenation) derive the same {what} under t={}",
          hex::encode(&s.0),
          c.t
        ));
      }
    }
    st.nontrivial(&(&s.0, i, c.t));
  }
  // and all 32 one-bit neighbours of the threshold, on the randomness
  let base = Triple { m: Hx(s[..s.len() / 2].to_vec()), e: Hx(s[s.len() / 2..].to_vec()), t: c.t };
  for bit in 0..32 {
    must_differ(&base, &Triple { t: c.t ^ (1 << bit), ..base.clone() }, "threshold-one-bit", st)?;
  }
  Ok(())
}

pub fn property() -> Property {
  Property {
    id: "C04",
    level: "exploration",
    rule: "same_triple: 2-7 independent clients (own generator objects, alternating Message::generate and share_with_local_randomness, differing aux) for a generated (measurement, epoch, t): equal randomness, tags, keys; pairwise distinct evaluation points; a generated selection of t shares recovers and the common key decrypts every report. different_triples: related-but-different pairs built by a relation generator (boundary shift of m||e, emptied / swapped component, proper prefix, one-bit threshold change in each of 32 positions, zero padding, unrelated): randomness always differs, tags and keys differ whenever both thresholds are small enough to share (<= 200). all_splits: every split of a generated string of length <= 12 against every other split, and all 32 one-bit threshold neighbours. Non-trivial: related-but-different pair, or identical triple with >= 2 clients; distinct by the triples.",
    assumptions: vec![
      "distinctness of evaluation points samples OsRng",
      "tags and keys are only observable through a sharing, so they are compared for thresholds <= 200; the randomness is compared for all 32-bit thresholds",
    ],
    subs: vec![
      prop_sub("same_triple", 5000, 300000, same_strat, same_oracle),
      prop_sub("different_triples", 30000, 2000000, diff_strat, diff_oracle),
      prop_sub(
        "all_splits",
        600,
        12000,
        |_| (small_bytes(12), 1u32..9).prop_map(|(s, t)| SplitCase { s, t }).boxed(),
        split_oracle,
      ),
    ],
  }
}
