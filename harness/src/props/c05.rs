//! C05 Authenticated recovery: the result is the shared message or an error, never else.

use crate::engine::*;
use crate::gens::*;
use crate::layout;
use crate::wiregen::{apply_fault, FAULT_KINDS};
use proptest::collection::vec;
use proptest::prelude::*;
use serde::{Deserialize, Serialize};
use serde_json::json;

#[derive(Clone, Debug, Serialize, Deserialize)]
pub struct Sharing {
  pub t: u32,
  pub msg: Hx,
  pub coins: Hx,
}

#[derive(Clone, Debug, Serialize, Deserialize)]
pub enum Fault {
  None,
  /// one fault: field selector, offset within the field, kind (see wiregen::apply_fault)
  One { pos: u16, field: u16, off: u16, kind: u8 },
  /// threshold of the share at `pos` rewritten
  Threshold { pos: u16, value: u32 },
  /// every offset x every kind on the share at `pos` (complete for that share)
  All { pos: u16 },
  /// a whole field replaced by the same field of another share in the collection
  Transplant { pos: u16, from: u16, field: u16 },
  /// a whole field element (x or a y) or the whole of C / D / J overwritten with a special value:
  /// 0 = all zero, 1 = the integer one, 2 = p-1 (elements) / all 0xFF, 3 = all 0xFF
  Special { pos: u16, field: u16, val: u8 },
  /// two bytes of ONE field altered so that simple checksums cancel: kind 0 = the same XOR mask on
  /// both, 1 = +d on one and -d on the other, 2 = the two bytes swapped
  Pair { pos: u16, field: u16, off1: u16, off2: u16, d: u8, kind: u8 },
}

#[derive(Clone, Debug, Serialize, Deserialize)]
pub struct Case {
  pub sharings: Vec<Sharing>,
  /// equal messages with different coins / equal inputs with different thresholds
  pub twin: Option<u8>,
  /// the collection: (sharing selector, share selector)
  pub picks: Vec<(u16, u16)>,
  pub fault: Fault,
  /// go through sta_rs::share_recover instead of adss::recover
  pub via_star: bool,
}

fn sharing() -> BoxedStrategy<Sharing> {
  (1u32..9, bytes(80), bytes(40)).prop_map(|(t, msg, coins)| Sharing { t, msg, coins }).boxed()
}

fn fault(all_weight: u32) -> BoxedStrategy<Fault> {
  prop_oneof![
    2 => Just(Fault::None),
    6 => (prop_oneof![2 => Just(0u16), 3 => any::<u16>()], any::<u16>(), any::<u16>(), 0u8..FAULT_KINDS as u8).prop_map(|(pos, field, off, kind)| Fault::One { pos, field, off, kind }),
    3 => (prop_oneof![2 => Just(0u16), 3 => any::<u16>()], prop_oneof![0u32..10, Just(u32::MAX), Just(1u32 << 31)]).prop_map(|(pos, value)| Fault::Threshold { pos, value }),
    all_weight => prop_oneof![2 => Just(0u16), 3 => any::<u16>()].prop_map(|pos| Fault::All { pos }),
    3 => (prop_oneof![2 => Just(0u16), 3 => any::<u16>()], any::<u16>(), any::<u16>()).prop_map(|(pos, from, field)| Fault::Transplant { pos, from, field }),
    4 => (prop_oneof![3 => Just(0u16), 2 => any::<u16>()], any::<u16>(), 0u8..4).prop_map(|(pos, field, val)| Fault::Special { pos, field, val }),
    5 => (prop_oneof![3 => Just(0u16), 2 => any::<u16>()], any::<u16>(), any::<u16>(), any::<u16>(), 1u8..=255, 0u8..3)
      .prop_map(|(pos, field, off1, off2, d, kind)| Fault::Pair { pos, field, off1, off2, d, kind }),
  ]
  .boxed()
}

fn strat(_t: Tier) -> BoxedStrategy<Case> {
  (vec(sharing(), 1..5), proptest::option::weighted(0.3, 0u8..3), vec((any::<u16>(), any::<u16>()), 1..14), fault(1), any::<bool>())
    .prop_map(|(sharings, twin, picks, fault, via_star)| Case { sharings, twin, picks, fault, via_star })
    .boxed()
}

fn recover_bytes(enc: &[Vec<u8>], via_star: bool) -> Result<Result<Vec<u8>, String>, String> {
  if via_star {
    let mut v = Vec::new();
    for e in enc {
      match sta_rs::Share::from_bytes(e) {
        Some(s) => v.push(s),
        None => return Ok(Err("rejected at decode".into())),
      }
    }
    Ok(sta_rs::share_recover(&v).map(|c| c.get_message()).map_err(|e| e.to_string()))
  } else {
    let mut v = Vec::new();
    for e in enc {
      match adss::Share::from_bytes(e) {
        Some(s) => v.push(s),
        None => return Ok(Err("rejected at decode".into())),
      }
    }
    // (the shape of the iterator is a function of the collection, so replay is unaffected)
    let ishape = (v.len() as u8).wrapping_mul(3).wrapping_add(enc.first().map(|e| e.len() as u8).unwrap_or(0));
    Ok(adss::recover(shaped(ishape, &v)).map(|c| c.get_message()).map_err(|e| e.to_string()))
  }
}

fn oracle(c: &Case, st: &mut Stats) -> Result<(), String> {
  let mut sharings = c.sharings.clone();
  if let Some(k) = c.twin {
    let mut tw = sharings[0].clone();
    match k {
      0 => tw.coins.0.push(0xA5),            // equal message, different coins
      1 => tw.t = if tw.t >= 8 { 7 } else { tw.t + 1 }, // equal inputs, different threshold
      _ => tw.msg.0.push(0),                  // message extended by a zero byte, same coins
    }
    sharings.push(tw);
  }
  // shares per sharing: enough to reach every threshold
  let mut pool: Vec<Vec<Vec<u8>>> = Vec::new();
  for s in &sharings {
    let n = s.t as usize + 2;
    let mut v = Vec::new();
    for _ in 0..n {
      v.push(
        adss::Commune::new(s.t, s.msg.0.clone(), s.coins.0.clone(), None)
          .share()
          .map_err(|e| format!("share failed: {e}"))?
          .to_bytes(),
      );
    }
    pool.push(v);
  }
  let mut coll: Vec<(usize, Vec<u8>)> = Vec::new();
  for (a, b) in &c.picks {
    let si = idx(*a, sharings.len());
    let sh = idx(*b, pool[si].len());
    coll.push((si, pool[si][sh].clone()));
  }
  let first = coll[0].0;
  let first_msg = sharings[first].msg.0.clone();
  let first_t = sharings[first].t;
  let honest: Vec<Vec<u8>> = coll.iter().map(|(_, b)| b.clone()).collect();

  // classify the mixture
  let interleaved = {
    // a foreign share appears before the first sharing's threshold is complete
    let mut seen = std::collections::BTreeSet::new();
    let mut foreign_before = false;
    for (si, b) in &coll {
      if *si == first {
        seen.insert(b.clone());
        if seen.len() >= first_t as usize {
          break;
        }
      } else {
        foreign_before = true;
      }
    }
    foreign_before
  };
  if interleaved {
    st.class("foreign-share-inside-first-t");
  }

  let judge = |enc: &[Vec<u8>], fault_pos: Option<usize>, what: &str, st: &mut Stats| -> Result<(), String> {
    st.evals(1);
    let res = recover_bytes(enc, c.via_star)?;
    let changed_first = match fault_pos {
      Some(0) => enc[0] != honest[0],
      _ => false,
    };
    // does the altered first share still decode to the same value? (then it is not an alteration)
    let same_value = changed_first && adss::Share::from_bytes(&enc[0]).map(|s| s.to_bytes()) == Some(honest[0].clone());
    match &res {
      Ok(m) if *m != first_msg => {
        return Err(format!(
          "recovery returned a message that is not the one shared with the first share: got {} want {} ({what}); collection {:?}",
          hx(m),
          hx(&first_msg),
          enc.iter().map(|e| hex::encode(e)).collect::<Vec<_>>()
        ));
      }
      Ok(_) => {
        if changed_first && !same_value {
          // exemption: with t = 1 the polynomial is constant, so any x is an honest share
          let only_x = {
            let f = layout::share_fields(&honest[0]);
            let g = layout::share_fields(&enc[0]);
            match (f, g) {
              (Some(f), Some(g)) if f == g => {
                let mut a = honest[0].clone();
                let mut b = enc[0].clone();
                for i in f.x() {
                  a[i] = 0;
                  b[i] = 0;
                }
                a == b
              }
              _ => false,
            }
          };
          if !(first_t == 1 && only_x) {
            return Err(format!(
              "an altered first share (the one that supplies the ciphertext) was accepted ({what}): honest {} altered {}",
              hex::encode(&honest[0]),
              hex::encode(&enc[0])
            ));
          }
          st.class("exempt:x-altered-at-t=1");
        }
        st.class("result=ok-first-message");
      }
      Err(_) => {
        st.class("result=err");
      }
    }
    Ok(())
  };

  let field_of = |share: &[u8], sel: u16| -> Option<(&'static str, std::ops::Range<usize>)> {
    let f = layout::share_fields(share)?;
    let names = f.named();
    Some(names[idx(sel, names.len())].clone())
  };

  // results must not depend on what was recovered just before: in half of the cases the
  // honest collection is recovered first
  if c.picks.len() % 2 == 0 {
    let _ = recover_bytes(&honest, c.via_star)?;
    st.class("preceded-by-honest-recovery");
  }
  match &c.fault {
    Fault::None => {
      judge(&honest, None, "no fault", st)?;
      // without a fault, a collection that starts with t distinct shares of the first sharing must recover
      let mut seen = std::collections::BTreeSet::new();
      let lead = coll.iter().take_while(|(si, b)| *si == first && { seen.insert(b.clone()); true }).count();
      let _ = lead;
    }
    Fault::One { pos, field, off, kind } => {
      let p = idx(*pos, coll.len());
      let mut enc = honest.clone();
      if let Some((name, r)) = field_of(&enc[p], *field) {
        let o = r.start + idx(*off, r.len());
        enc[p][o] = apply_fault(enc[p][o], *kind as usize);
        st.class(&format!("fault-field={name}"));
        st.class(if p == 0 { "fault-on-first-share" } else { "fault-on-later-share" });
        judge(&enc, Some(p), &format!("fault kind {kind} on field {name} offset {o} of share {p}"), st)?;
      }
    }
    Fault::Threshold { pos, value } => {
      let p = idx(*pos, coll.len());
      let mut enc = honest.clone();
      enc[p][..4].copy_from_slice(&value.to_le_bytes());
      st.class(if p == 0 { "threshold-rewritten-on-first-share" } else { "threshold-rewritten-on-later-share" });
      if p == 0 && *value >= 1 && (*value as usize) <= coll.len() && *value != first_t {
        st.class("threshold-of-first-share-set-to-a-reachable-value");
      }
      judge(&enc, Some(p), &format!("threshold of share {p} rewritten to {value}"), st)?;
    }
    Fault::All { pos } => {
      let p = idx(*pos, coll.len());
      let mut enc = honest.clone();
      let base = honest[p].clone();
      for o in 0..base.len() {
        for kind in 0..FAULT_KINDS {
          let nb = apply_fault(base[o], kind);
          if nb == base[o] {
            continue;
          }
          enc[p][o] = nb;
          judge(&enc, Some(p), &format!("fault kind {kind} at offset {o} of share {p}"), st)?;
        }
        enc[p][o] = base[o];
      }
      st.class(if p == 0 { "all-faults-on-first-share" } else { "all-faults-on-later-share" });
    }
    Fault::Pair { pos, field, off1, off2, d, kind } => {
      let p = idx(*pos, coll.len());
      let mut enc = honest.clone();
      if let Some((name, r)) = field_of(&enc[p], *field) {
        if r.len() >= 2 {
          let a = r.start + idx(*off1, r.len());
          let mut b2 = r.start + idx(*off2, r.len());
          if a == b2 {
            b2 = r.start + (b2 - r.start + 1) % r.len();
          }
          match kind % 3 {
            0 => {
              enc[p][a] ^= *d;
              enc[p][b2] ^= *d;
            }
            1 => {
              enc[p][a] = enc[p][a].wrapping_add(*d);
              enc[p][b2] = enc[p][b2].wrapping_sub(*d);
            }
            _ => enc[p].swap(a, b2),
          }
          st.class(&format!("pair-fault-field={name}"));
          judge(&enc, Some(p), &format!("two bytes ({a}, {b2}) of field {name} of share {p} altered, kind {}", kind % 3), st)?;
        }
      }
    }
    Fault::Special { pos, field, val } => {
      let p = idx(*pos, coll.len());
      let mut enc = honest.clone();
      if let Some(f) = layout::share_fields(&honest[p]) {
        // candidate fields: x, each y, C, D, J
        let mut fields: Vec<(&'static str, std::ops::Range<usize>, bool)> = vec![("x", f.x(), true)];
        for i in 0..f.y_count() {
          fields.push(("y", f.y(i), true));
        }
        for (n, r) in [("C", f.c.clone()), ("D", f.d.clone()), ("J", f.j.clone())] {
          if !r.is_empty() {
            fields.push((n, r, false));
          }
        }
        let (name, r, is_fe) = fields[idx(*field, fields.len())].clone();
        let bytes: Vec<u8> = match (val % 4, is_fe) {
          (0, _) => vec![0u8; r.len()],
          (1, _) => {
            let mut v = vec![0u8; r.len()];
            v[0] = 1;
            v
          }
          (2, true) => crate::bigmodel::le24(&(crate::bigmodel::p() - 1u32)).to_vec(),
          _ => vec![0xFFu8; r.len()],
        };
        enc[p][r].copy_from_slice(&bytes);
        st.class(&format!("special-value-field={name}:{}", val % 4));
        judge(&enc, Some(p), &format!("field {name} of share {p} overwritten with special value {}", val % 4), st)?;
      }
    }
    Fault::Transplant { pos, from, field } => {
      let p = idx(*pos, coll.len());
      let q = idx(*from, coll.len());
      let mut enc = honest.clone();
      if let (Some(fp_), Some(fq)) = (layout::share_fields(&honest[p]), layout::share_fields(&honest[q])) {
        let np = fp_.named();
        let nq = fq.named();
        let i = idx(*field, np.len());
        let (name, rp) = np[i].clone();
        if let Some((_, rq)) = nq.iter().find(|(n, _)| *n == name) {
          if rp.len() == rq.len() {
            let src = honest[q][rq.clone()].to_vec();
            enc[p][rp].copy_from_slice(&src);
            st.class(&format!("transplant-field={name}"));
            judge(&enc, Some(p), &format!("field {name} of share {p} replaced by that of share {q}"), st)?;
          }
        }
      }
    }
  }
  if sharings.len() >= 2 && interleaved || !matches!(c.fault, Fault::None) {
    st.nontrivial(&(fp(&honest), format!("{:?}", c.fault), c.via_star));
  }
  if st.want_sample() {
    st.sample(json!({"sharings": sharings.iter().map(|s| format!("t={} |m|={} |r|={}", s.t, s.msg.len(), s.coins.len())).collect::<Vec<_>>(),
      "collection": coll.iter().map(|(s, _)| *s).collect::<Vec<_>>(), "fault": format!("{:?}", c.fault), "via_star": c.via_star}));
  }
  Ok(())
}

pub fn property() -> Property {
  Property {
    id: "C05",
    level: "fault_enumeration",
    rule: "1-4 ADSS sharings (t in 1..8, distinct message/coins, optional twin with equal message and other coins / equal inputs and other threshold / zero-extended message), a collection built by a generated interleaving with repetition, then no fault, one fault (field x offset x 12 kinds) on the share at a generated position, a rewritten threshold, a field transplanted from another share, a whole field overwritten with a special value (0, 1, p-1, all 0xFF), or ALL offsets x ALL kinds on one share; decoded through adss::Share::from_bytes or sta_rs::Share::from_bytes. Oracle: result is Err (decode rejection counts) or Ok(message of the sharing of collection[0]); a changed first share must give Err (exemption: only x altered at t = 1). Non-trivial: >= 2 sharings interleaved before the first threshold is complete, or a fault present; distinct by (collection, fault).",
    assumptions: vec![
      "share points come from OsRng",
      "altering x when t = 1 yields another honest share of the same constant polynomial and is not demanded to be rejected",
    ],
    subs: vec![
      prop_sub("mixtures_and_faults", 6000, 150000, strat, oracle),
      crate::fuzzentry::fuzz_sub("fuzzbytes_recover", "recover", "C05", 10000, 200000),
      crate::fuzzentry::artefact_sub("artefact_recover", "recover", "C05"),
    ],
  }
}
