//! C06 Secret sharing is textbook Shamir over GF(2^128+12451), per an independent model.

use crate::bigmodel::*;
use crate::engine::*;
use crate::gens::*;
use crate::props::c07::boundary;
use ff::Field;
use num_bigint::BigUint;
use num_traits::{One, Zero};
use proptest::collection::vec;
use proptest::prelude::*;
use rand_chacha::rand_core::SeedableRng;
use rand_chacha::ChaCha8Rng;
use rand_core::RngCore;
use serde::{Deserialize, Serialize};
use serde_json::json;
use star_sharks::{Fp, Share, Sharks};

/// Random source made of a generated finite prefix of 64-bit words followed by
/// a ChaCha stream (so rejection sampling always terminates); counts words.
#[derive(Clone)]
pub struct ScriptedRng {
  prefix: Vec<u64>,
  pos: usize,
  tail: ChaCha8Rng,
  pub words: u64,
}
impl ScriptedRng {
  pub fn new(prefix: &[u64], tail_seed: u64) -> Self {
    ScriptedRng {
      prefix: prefix.to_vec(),
      pos: 0,
      tail: ChaCha8Rng::seed_from_u64(tail_seed),
      words: 0,
    }
  }
}
impl RngCore for ScriptedRng {
  fn next_u32(&mut self) -> u32 {
    self.next_u64() as u32
  }
  fn next_u64(&mut self) -> u64 {
    self.words += 1;
    if self.pos < self.prefix.len() {
      self.pos += 1;
      self.prefix[self.pos - 1]
    } else {
      self.tail.next_u64()
    }
  }
  fn fill_bytes(&mut self, dest: &mut [u8]) {
    rand_core::impls::fill_bytes_via_next(self, dest)
  }
  fn try_fill_bytes(&mut self, dest: &mut [u8]) -> Result<(), rand_core::Error> {
    self.fill_bytes(dest);
    Ok(())
  }
}

#[derive(Clone, Debug, Serialize, Deserialize)]
pub struct Case {
  pub t: u32,
  /// secret elements as decimal integers (may be >= p for the refusal class)
  pub secret: Vec<String>,
  pub prefix: Vec<u64>,
  pub tail: u64,
  /// 0 = iterator (next), 1 = gen(rng2), 2 = iterator driven through `access`
  pub mode: u8,
  /// (operation, argument) script for mode 2: next / nth / skip / step_by / take / last
  #[serde(default)]
  pub access: Vec<(u8, u8)>,
  pub prefix2: Vec<u64>,
  pub tail2: u64,
  pub extra: u16,
  pub sel: SelSpec,
  pub sub_sel: SelSpec,
}

fn word() -> BoxedStrategy<u64> {
  prop_oneof![
    3 => Just(0u64),
    1 => Just(1u64),
    1 => Just(1u64 << 63),
    1 => Just(u64::MAX),
    1 => Just(12451u64),
    1 => Just(12450u64),
    3 => any::<u64>(),
  ]
  .boxed()
}

fn element() -> BoxedStrategy<String> {
  prop_oneof![
    3 => any::<u16>().prop_map(|i| { let b = boundary(); b[idx(i, b.len())].to_string() }),
    3 => uniform_bytes(24, 24).prop_map(|h| (big_from_le(&h) % p()).to_string()),
  ]
  .boxed()
}

/// three words that make a limb-wise sampler return a chosen boundary VALUE
/// (the element's internal limbs, exposed by the public `Vec<u64>: From<Fp>`);
/// if the sampler works differently these are just three more words
fn special_draw() -> BoxedStrategy<Vec<u64>> {
  any::<u16>()
    .prop_map(|i| {
      let b = boundary();
      let v = &b[idx(i, b.len())];
      match big_to_fe(v) {
        Some(f) => Vec::<u64>::from(f),
        None => vec![0, 0, 0],
      }
    })
    .boxed()
}

fn scripted_prefix(max: usize) -> BoxedStrategy<Vec<u64>> {
  prop_oneof![
    8 => scripted_prefix_short(max),
    // a long run of draws that rejection sampling must refuse (>= p), then anything
    1 => (1usize..40, vec(word(), 0..4)).prop_map(|(k, tail)| {
      let mut w = vec![u64::MAX; 3 * k];
      w.extend(tail);
      w
    }),
  ]
  .boxed()
}

fn scripted_prefix_short(max: usize) -> BoxedStrategy<Vec<u64>> {
  (vec(word(), 0..max), proptest::option::weighted(0.4, (special_draw(), 0usize..3)))
    .prop_map(|(mut w, sp)| {
      if let Some((limbs, at)) = sp {
        // insert on a draw boundary (draws take three words each)
        let pos = (3 * at).min(w.len() - w.len() % 3);
        for (k, l) in limbs.into_iter().enumerate() {
          w.insert(pos + k, l);
        }
      }
      w
    })
    .boxed()
}

fn strat_with(tmax_small: u32, big: bool) -> BoxedStrategy<Case> {
  let t = if big {
    (65u32..601).boxed()
  } else {
    prop_oneof![1 => Just(1u32), 2 => Just(2u32), 6 => 3u32..17, 3 => 17u32..tmax_small + 1].boxed()
  };
  let kmax = if big { 2 } else { 17 };
  (
    (t, vec(element(), 0..kmax), scripted_prefix(10), any::<u64>()),
    (prop_oneof![3 => Just(0u8), 3 => Just(1u8), 2 => Just(2u8)], scripted_prefix(7), any::<u64>(), any::<u16>()),
    (sel_spec(), sel_spec(), vec((0u8..6, 0u8..5), 1..7)),
  )
    .prop_map(|((t, secret, prefix, tail), (mode, prefix2, tail2, extra), (sel, sub_sel, access))| Case {
      access,
      t,
      secret,
      prefix,
      tail,
      mode,
      prefix2,
      tail2,
      extra,
      sel,
      sub_sel,
    })
    .boxed()
}

/// shares taken from the dealer through the Iterator interface other than plain next()
fn draw_scripted<I: Iterator<Item = Share>>(dealer: &mut I, access: &[(u8, u8)], n: usize) -> Vec<Share> {
  let mut out = Vec::new();
  let mut i = 0;
  while out.len() < n {
    let (op, arg) = if access.is_empty() { (0, 0) } else { access[i % access.len()] };
    i += 1;
    let a = (arg % 5) as usize;
    match op % 6 {
      0 => out.push(dealer.next().expect("evaluator iterator never ends")),
      1 => out.push(dealer.nth(a).expect("evaluator iterator never ends")),
      2 => out.push(dealer.by_ref().skip(a).next().expect("evaluator iterator never ends")),
      3 => out.extend(dealer.by_ref().step_by(a + 1).take(2)),
      4 => out.extend(dealer.by_ref().take(a + 1)),
      _ => out.push(dealer.by_ref().take(a + 1).last().expect("evaluator iterator never ends")),
    }
  }
  out.truncate(n);
  out
}

fn oracle(c: &Case, st: &mut Stats) -> Result<(), String> {
  let t = c.t.max(1) as usize;
  let k = c.secret.len();
  let secret: Vec<BigUint> = c.secret.iter().map(|s| s.parse::<BigUint>().unwrap_or_default() % p()).collect();
  let mut secret_bytes = Vec::new();
  for s in &secret {
    secret_bytes.extend_from_slice(&le24(s));
  }
  let sharks = Sharks(t as u32);
  let mut rng = ScriptedRng::new(&c.prefix, c.tail);
  let mut replay = rng.clone();
  let mut dealer = sharks
    .dealer_rng(&secret_bytes, &mut rng)
    .map_err(|e| format!("dealer refused an in-range secret: {e}"))?;
  // "a draw from the supplied source" = what Fp::random returns on the same stream
  let ndraw = k * (t - 1);
  let draws: Vec<BigUint> = (0..ndraw).map(|_| fe_to_big(&Fp::random(&mut replay))).collect();
  if rng.words != replay.words {
    return Err(format!(
      "the dealer consumed {} words of the random source, {} draws of k(t-1) coefficients consume {}",
      rng.words, ndraw, replay.words
    ));
  }
  st.class(match t {
    1 => "t=1",
    2 => "t=2",
    3..=16 => "t=3-16",
    17..=64 => "t=17-64",
    _ => "t>=65",
  });
  st.class(match c.mode {
    0 => "deal=iterator",
    1 => "deal=random-points",
    _ => "deal=iterator-adaptors(nth/skip/step_by/take/last)",
  });
  let n = if c.extra % 23 == 7 && t <= 16 && k <= 4 {
    st.class("large-collection(255..2049 shares)");
    t + [255usize, 256, 257, 1023, 1024, 1025, 2049][(c.extra / 23) as usize % 7]
  } else {
    t + idx(c.extra, t.min(24) + 1)
  };
  let mut rng2 = ScriptedRng::new(&c.prefix2, c.tail2);
  let shares: Vec<Share> = if c.mode >= 2 {
    draw_scripted(&mut dealer, &c.access, n)
  } else {
    (0..n)
      .map(|_| {
        if c.mode == 0 {
          dealer.next().expect("evaluator iterator never ends")
        } else {
          dealer.gen(&mut rng2)
        }
      })
      .collect()
  };
  // every share: x != 0, k values, on the model polynomials
  let mut xs = std::collections::BTreeSet::new();
  let mut horner_ok = true;
  for (i, s) in shares.iter().enumerate() {
    let x = fe_to_big(&s.x);
    if x.is_zero() {
      return Err(format!(
        "share {i} has evaluation point x = 0 (its y values are the secret itself): mode={} prefix2={:?}",
        c.mode, c.prefix2
      ));
    }
    if s.y.len() != k {
      return Err(format!("share {i} carries {} values for a secret of {k} elements", s.y.len()));
    }
    xs.insert(x.to_bytes_le());
    for j in 0..k {
      let mut coeffs: Vec<BigUint> = draws[j * (t - 1)..(j + 1) * (t - 1)].to_vec();
      coeffs.push(secret[j].clone());
      if horner_hi_to_lo(&coeffs, &x) != fe_to_big(&s.y[j]) {
        horner_ok = false;
      }
    }
  }
  st.evals((n * k.max(1)) as u64);
  if c.mode != 1 && xs.len() != n {
    return Err(format!("iterator handed out {} distinct evaluation points for {n} shares", xs.len()));
  }
  if !horner_ok {
    // fallback so that a mere re-ordering of draws is not an alarm: recover
    // every polynomial completely and compare coefficient multisets
    if xs.len() < t {
      return Err("dealt values disagree with the model polynomial (and fewer than t distinct points to interpolate)".into());
    }
    let mut seen = std::collections::BTreeSet::new();
    let pts: Vec<&Share> = shares.iter().filter(|s| seen.insert(fe_to_big(&s.x).to_bytes_le())).collect();
    let mut got: Vec<BigUint> = Vec::new();
    for j in 0..k {
      let p_t: Vec<(BigUint, BigUint)> = pts[..t].iter().map(|s| (fe_to_big(&s.x), fe_to_big(&s.y[j]))).collect();
      let co = interpolate_coeffs(&p_t);
      if co[0] != secret[j] {
        return Err(format!("constant term of polynomial {j} is {} but the secret element is {}", co[0], secret[j]));
      }
      for s in &pts[t..] {
        if eval_lo_to_hi(&co, &fe_to_big(&s.x)) != fe_to_big(&s.y[j]) {
          return Err(format!("shares of one dealer do not lie on one polynomial of degree t-1 (element {j})"));
        }
      }
      got.extend(co[1..].iter().cloned());
    }
    let mut a = got.clone();
    let mut b = draws.clone();
    a.sort();
    b.sort();
    if a != b {
      return Err(format!(
        "non-constant coefficients are not the draws from the supplied source: t={t} k={k} coefficients {:?} draws {:?}",
        got.iter().map(|x| x.to_string()).collect::<Vec<_>>(),
        draws.iter().map(|x| x.to_string()).collect::<Vec<_>>()
      ));
    }
    st.class("coefficient-order-differs-from-model");
  }

  // recovery from a selection keeping t distinct
  if xs.len() == n {
    let sel = c.sel.build(n, t);
    let chosen: Vec<Share> = sel.iter().map(|i| shares[*i].clone()).collect();
    let shape = sel_shape(&sel, n);
    st.class(&format!("selection={shape}"));
    let ishape = (c.sel.rot >> 3) as u8;
    st.class(&format!("iterator={}", ITER_SHAPES[ishape as usize % ITER_SHAPES.len()]));
    let rec = sharks
      .recover(shaped(ishape, &chosen))
      .map_err(|e| format!("recover failed with {} distinct shares (t={t}, handed over as {}): {e}; selection {:?}", sel.iter().collect::<std::collections::BTreeSet<_>>().len(), ITER_SHAPES[ishape as usize % ITER_SHAPES.len()], sel))?;
    if rec != secret_bytes {
      return Err(format!("recover returned {} for secret {} (selection {:?}, t={t})", hx(&rec), hx(&secret_bytes), sel));
    }
    // model Lagrange on the first t distinct of the selection
    let mut seen = std::collections::BTreeSet::new();
    let first: Vec<&Share> = chosen.iter().filter(|s| seen.insert(fe_to_big(&s.x).to_bytes_le())).take(t).collect();
    for j in 0..k {
      let pts: Vec<(BigUint, BigUint)> = first.iter().map(|s| (fe_to_big(&s.x), fe_to_big(&s.y[j]))).collect();
      if lagrange_at_zero(&pts) != secret[j] {
        return Err(format!("model Lagrange interpolation disagrees with the secret for element {j}"));
      }
    }
    st.evals(1 + k as u64);
    // fewer than t distinct shares (padded with duplicates) are refused
    if t >= 2 {
      let mut sub = c.sub_sel.clone();
      sub.extra = 0;
      let d = t - 1;
      let s2 = sub.build(n, d);
      let s2: Vec<usize> = {
        // build() keeps exactly d distinct (extra = 0) and may add duplicates
        s2
      };
      let chosen: Vec<Share> = s2.iter().map(|i| shares[*i].clone()).collect();
      st.evals(1);
      if let Ok(v) = sharks.recover(&chosen) {
        return Err(format!(
          "recover accepted {} distinct shares under threshold {t} (selection {:?}) and returned {}",
          d,
          s2,
          hx(&v)
        ));
      }
    }
    // shares of unequal length are refused
    if k >= 1 && n >= 2 {
      let mut mixed = chosen_clone(&shares, &sel);
      let pos = idx(c.sub_sel.rot, mixed.len());
      let other_len_differs = {
        let mut m = mixed[pos].clone();
        m.y.pop();
        mixed[pos] = m;
        mixed.iter().any(|s| s.y.len() != mixed[pos].y.len())
      };
      if other_len_differs {
        st.evals(1);
        if let Ok(v) = sharks.recover(&mixed) {
          return Err(format!("recover accepted shares of unequal length (position {pos}) and returned {}", hx(&v)));
        }
      }
    }
    let scripted = !c.prefix.is_empty() || (c.mode == 1 && !c.prefix2.is_empty());
    let boundary_el = secret.iter().any(|s| boundary().contains(s));
    if t >= 2 && k >= 1 && (boundary_el || shape != "identity" || scripted) {
      st.nontrivial(&(t, k, &c.secret, &c.prefix, c.mode, &sel));
    }
  }
  if st.want_sample() {
    st.sample(json!({"t": t, "k": k, "n": n, "mode": c.mode, "access": if c.mode >= 2 { c.access.clone() } else { vec![] }, "prefix": c.prefix, "prefix2": c.prefix2, "secret": c.secret}));
  }
  Ok(())
}

fn chosen_clone(shares: &[Share], sel: &[usize]) -> Vec<Share> {
  sel.iter().map(|i| shares[*i].clone()).collect()
}

#[derive(Clone, Debug, Serialize, Deserialize)]
pub struct OorCase {
  pub t: u32,
  pub good: Vec<String>,
  pub at: u16,
  /// offset added to p (the out-of-range element is p + off, < 2^192)
  pub off: Hx,
  pub seed: u64,
}

fn oor_strat(_t: Tier) -> BoxedStrategy<OorCase> {
  (
    1u32..9,
    vec(element(), 0..6),
    any::<u16>(),
    prop_oneof![Just(Hx(vec![0])), Just(Hx(vec![1])), uniform_bytes(1, 23), Just(Hx(vec![0xff; 23]))],
    any::<u64>(),
  )
    .prop_map(|(t, good, at, off, seed)| OorCase { t, good, at, off, seed })
    .boxed()
}

fn oor_oracle(c: &OorCase, st: &mut Stats) -> Result<(), String> {
  let mut els: Vec<BigUint> = c.good.iter().map(|s| s.parse::<BigUint>().unwrap_or_default() % p()).collect();
  let bad = (p() + big_from_le(&c.off)) % (BigUint::from(1u8) << 192);
  let bad = if bad < p() { p() } else { bad };
  let pos = idx(c.at, els.len() + 1);
  els.insert(pos, bad.clone());
  let mut bytes = Vec::new();
  for e in &els {
    bytes.extend_from_slice(&le24(e));
  }
  let mut rng = ScriptedRng::new(&[], c.seed);
  st.nontrivial(&(pos, els.len(), bad.to_bytes_le()));
  match Sharks(c.t).dealer_rng(&bytes, &mut rng) {
    Err(_) => Ok(()),
    Ok(mut d) => {
      let s = d.next().unwrap();
      Err(format!(
        "a secret whose element {pos} is {bad} (>= p) was accepted; first share y = {:?}",
        s.y.iter().map(|y| fe_to_big(y).to_string()).collect::<Vec<_>>()
      ))
    }
  }
}


#[derive(Clone, Debug, Serialize, Deserialize)]
pub struct HugeCase {
  pub t: u32,
  pub secret: String,
  pub seed: u64,
  pub mode: u8,
}

fn huge_thresholds(tier: Tier) -> Vec<u32> {
  let mut v = vec![255u32, 256, 257, 258, 511, 512, 513, 1024, 1025, 4097, 65535, 65536, 65537, 65538];
  if tier == Tier::Thorough {
    v.extend_from_slice(&[131_073, 1 << 20, (1 << 20) + 1]);
  }
  v
}

/// For thresholds far beyond what recovery can afford: the dealer must consume
/// exactly t-1 draws, and a handful of dealt points must NOT lie on a polynomial
/// of small degree (which they would if the degree were truncated).
fn huge_oracle(c: &HugeCase, st: &mut Stats) -> Result<(), String> {
  let t = c.t as usize;
  let secret = c.secret.parse::<BigUint>().unwrap_or_default() % p();
  let mut rng = ScriptedRng::new(&[], c.seed);
  let mut replay = rng.clone();
  let mut dealer = Sharks(c.t)
    .dealer_rng(&le24(&secret), &mut rng)
    .map_err(|e| format!("dealer refused: {e}"))?;
  for _ in 0..t - 1 {
    let _ = Fp::random(&mut replay);
  }
  st.evals(1);
  if rng.words != replay.words {
    return Err(format!(
      "threshold {t}: the dealer consumed {} words of the random source, t-1 = {} coefficient draws consume {}",
      rng.words,
      t - 1,
      replay.words
    ));
  }
  let mut rng2 = ScriptedRng::new(&[], c.seed ^ 0xABCD);
  let n = 8;
  let pts: Vec<(BigUint, BigUint)> = (0..n)
    .map(|_| {
      let s = if c.mode == 0 { dealer.next().unwrap() } else { dealer.gen(&mut rng2) };
      (fe_to_big(&s.x), fe_to_big(&s.y[0]))
    })
    .collect();
  for d in 0..=5usize {
    let co = interpolate_coeffs(&pts[..d + 1]);
    if pts[d + 1..].iter().all(|(x, y)| eval_lo_to_hi(&co, x) == *y) {
      return Err(format!(
        "threshold {t}: {n} dealt points lie on a polynomial of degree <= {d}; the sharing polynomial does not have degree t-1"
      ));
    }
  }
  st.nontrivial(&(c.t, &c.secret, c.seed, c.mode));
  st.class(&format!("t={}", c.t));
  Ok(())
}


#[derive(Clone, Debug, Serialize, Deserialize)]
pub struct PtsCase {
  pub t: u32,
  pub k: u8,
  /// x coordinates as decimal integers (made distinct), incl. 0, 1, p-1 and other boundary values
  pub xs: Vec<String>,
  pub seed: u64,
  pub sel: SelSpec,
}

fn pts_strat(_t: Tier) -> BoxedStrategy<PtsCase> {
  (1u32..10, 0u8..4, vec(prop_oneof![2 => Just("0".to_string()), 1 => Just("1".to_string()), 4 => element()], 1..14), any::<u64>(), sel_spec())
    .prop_map(|(t, k, xs, seed, sel)| PtsCase { t, k, xs, seed, sel })
    .boxed()
}

/// recover() on hand-built points (not dealt): equals bigint Lagrange at 0 through the
/// first t distinct points of the collection, whatever the points are
fn pts_oracle(c: &PtsCase, st: &mut Stats) -> Result<(), String> {
  let mut seen = std::collections::BTreeSet::new();
  let xs: Vec<BigUint> = c.xs.iter().map(|s| s.parse::<BigUint>().unwrap_or_default() % p()).filter(|x| seen.insert(x.to_bytes_le())).collect();
  let t = (c.t as usize).min(xs.len()).max(1);
  let k = c.k as usize;
  let ys: Vec<Vec<BigUint>> = xs
    .iter()
    .enumerate()
    .map(|(i, _)| {
      // special values among the y coordinates too: single values 0 / 1 / p-1, and whole rows of
      // zeros (a point on a common root of all the polynomials)
      let row_zero = expand(c.seed ^ ((i as u64) << 8) ^ 0xFFFF, 1)[0] < 40;
      (0..k)
        .map(|j| {
          let r = expand(c.seed ^ ((i as u64) << 8) ^ j as u64, 25);
          match r[24] {
            _ if row_zero => BigUint::zero(),
            0..=31 => BigUint::zero(),
            32..=47 => BigUint::one(),
            48..=63 => p() - 1u32,
            _ => big_from_le(&r[..24]) % p(),
          }
        })
        .collect()
    })
    .collect();
  let shares: Vec<Share> = xs
    .iter()
    .zip(ys.iter())
    .map(|(x, y)| Share { x: big_to_fe(x).unwrap(), y: y.iter().map(|v| big_to_fe(v).unwrap()).collect() })
    .collect();
  let sel = c.sel.build(shares.len(), t);
  let chosen: Vec<Share> = sel.iter().map(|i| shares[*i].clone()).collect();
  st.evals(1);
  let got = Sharks(t as u32).recover(shaped((c.sel.rot >> 3) as u8, &chosen)).map_err(|e| format!("recover refused {} distinct points under threshold {t}: {e}", sel.iter().collect::<std::collections::BTreeSet<_>>().len()))?;
  // model: first t distinct of the selection
  let mut seen = std::collections::BTreeSet::new();
  let first: Vec<usize> = sel.iter().cloned().filter(|i| seen.insert(*i)).take(t).collect();
  let mut want = Vec::new();
  for j in 0..k {
    let pts: Vec<(BigUint, BigUint)> = first.iter().map(|i| (xs[*i].clone(), ys[*i][j].clone())).collect();
    want.extend_from_slice(&le24(&lagrange_at_zero(&pts)));
  }
  if got != want {
    return Err(format!(
      "recover on hand-built points disagrees with Lagrange interpolation at 0: got {} want {} (t={t}, x = {:?}, selection {:?})",
      hx(&got),
      hx(&want),
      first.iter().map(|i| xs[*i].to_string()).collect::<Vec<_>>(),
      sel
    ));
  }
  if k > 0 && first.iter().any(|i| ys[*i].iter().all(|y| y.is_zero())) && !first.iter().all(|i| ys[*i].iter().all(|y| y.is_zero())) {
    st.class("point-with-all-y=0-among-first-t");
  }
  let has_zero = first.iter().any(|i| xs[*i].is_zero());
  if has_zero {
    st.class("point-at-x=0-among-first-t");
  }
  if t >= 2 || has_zero {
    st.nontrivial(&(t, k, &c.xs, c.seed, &sel));
  }
  Ok(())
}


#[derive(Clone, Debug, Serialize, Deserialize)]
pub struct ApiCase {
  pub t: u32,
  /// explicit polynomials (coefficients highest degree first, decimal integers)
  pub polys: Vec<Vec<String>>,
  pub n: u8,
  pub seed: u64,
  pub secret: Vec<String>,
}

fn api_strat(_t: Tier) -> BoxedStrategy<ApiCase> {
  (1u32..9, vec(vec(element(), 1..7), 0..4), 1u8..12, any::<u64>(), vec(element(), 0..4))
    .prop_map(|(t, polys, n, seed, secret)| ApiCase { t, polys, n, seed, secret })
    .boxed()
}

/// the remaining public entry points: get_evaluator on explicit polynomials,
/// interpolate called directly, random_polynomial, and dealer() with the thread RNG
fn api_oracle(c: &ApiCase, st: &mut Stats) -> Result<(), String> {
  use star_sharks::{get_evaluator, interpolate, random_polynomial};
  // 1. get_evaluator(polys): every dealt value is the model's Horner value
  let polys_big: Vec<Vec<BigUint>> = c.polys.iter().map(|pl| pl.iter().map(|s| s.parse::<BigUint>().unwrap_or_default() % p()).collect()).collect();
  let polys_fp: Vec<Vec<Fp>> = polys_big.iter().map(|p| p.iter().map(|v| big_to_fe(v).unwrap()).collect()).collect();
  let mut ev = get_evaluator(polys_fp);
  let mut rng = ScriptedRng::new(&[], c.seed);
  for i in 0..c.n {
    let s = if i % 2 == 0 { ev.next().unwrap() } else { ev.gen(&mut rng) };
    let x = fe_to_big(&s.x);
    if x.is_zero() {
      return Err("evaluator handed out x = 0".into());
    }
    if s.y.len() != polys_big.len() {
      return Err(format!("share carries {} values for {} polynomials", s.y.len(), polys_big.len()));
    }
    for (j, pb) in polys_big.iter().enumerate() {
      st.evals(1);
      if horner_hi_to_lo(pb, &x) != fe_to_big(&s.y[j]) {
        return Err(format!("get_evaluator: value of polynomial {j} at x = {x} disagrees with Horner evaluation of {:?}", c.polys[j]));
      }
    }
  }
  // 2. random_polynomial(s, k, rng): k coefficients, the last one is s, the others are the draws
  let s0 = c.secret.first().map(|s| s.parse::<BigUint>().unwrap_or_default() % p()).unwrap_or_default();
  let mut r1 = ScriptedRng::new(&[], c.seed ^ 1);
  let mut r2 = r1.clone();
  let poly = random_polynomial(big_to_fe(&s0).unwrap(), c.t, &mut r1);
  if poly.len() != c.t as usize || fe_to_big(&poly[poly.len() - 1]) != s0 {
    return Err(format!("random_polynomial(s, {}) returned {} coefficients / wrong constant term", c.t, poly.len()));
  }
  for (i, co) in poly[..poly.len() - 1].iter().enumerate() {
    if fe_to_big(co) != fe_to_big(&Fp::random(&mut r2)) {
      return Err(format!("random_polynomial: coefficient {i} is not the {i}-th draw from the supplied source"));
    }
  }
  // 3. dealer() (thread RNG): shares lie on polynomials of degree t-1 with the secret as constant
  //    term, and interpolate() called directly agrees with bigint Lagrange
  let secret: Vec<BigUint> = c.secret.iter().map(|s| s.parse::<BigUint>().unwrap_or_default() % p()).collect();
  let mut bytes = Vec::new();
  for e in &secret {
    bytes.extend_from_slice(&le24(e));
  }
  let t = c.t as usize;
  let dealer = Sharks(c.t).dealer(&bytes).map_err(|e| format!("dealer refused an in-range secret: {e}"))?;
  let shares: Vec<Share> = dealer.take(t + 2).collect();
  let direct = interpolate(&shares[..t]).map_err(|e| format!("interpolate failed on t distinct shares: {e}"))?;
  if direct != bytes {
    return Err(format!("interpolate(first t shares) = {} but the secret is {}", hx(&direct), hx(&bytes)));
  }
  for j in 0..secret.len() {
    let pts: Vec<(BigUint, BigUint)> = shares[..t].iter().map(|s| (fe_to_big(&s.x), fe_to_big(&s.y[j]))).collect();
    let co = interpolate_coeffs(&pts);
    if co[0] != secret[j] {
      return Err("dealer(): constant term is not the secret element".into());
    }
    for s in &shares[t..] {
      if eval_lo_to_hi(&co, &fe_to_big(&s.x)) != fe_to_big(&s.y[j]) {
        return Err("dealer(): shares do not lie on one polynomial of degree t-1".into());
      }
    }
  }
  if interpolate(&[]).is_ok() {
    return Err("interpolate accepted an empty share list".into());
  }
  st.evals(3);
  st.nontrivial(&(c.t, &c.polys, c.n, &c.secret));
  Ok(())
}

pub fn property() -> Property {
  Property {
    id: "C06",
    level: "exploration",
    rule: "generated (t, k secret elements from the boundary set of C07 or uniform, scripted random source = generated word prefix incl. 0 / 2^64-1 / limbs of p followed by a ChaCha tail, dealing by iterator (next), by random points with a second scripted source, or through a generated script of iterator adaptors (nth / skip / step_by / take / last), selection with permutation/duplicates/surplus, sub-threshold selection, unequal-length mutation, out-of-range secret element). Oracle: bigint Horner over the draws replayed from the same stream, bigint Lagrange, coefficient-multiset fallback. Non-trivial: t >= 2, k >= 1 and (boundary-valued element or non-identity selection or scripted prefix); distinct by (t, secret, prefix, mode, selection).",
    assumptions: vec![
      "a 'draw from the supplied source' is defined as what Fp::random returns on a clone of the same stream",
      "degenerate streams are finite prefixes followed by ChaCha output (an endless constant stream would hang ff's rejection sampler by construction)",
    ],
    subs: vec![
      prop_sub("model_agreement", 3000, 150000, |t| strat_with(t.pick(64, 64), false), oracle),
      prop_sub("model_agreement_large_t", 16, 400, |_| strat_with(64, true), oracle),
      prop_sub("out_of_range_secret", 2000, 40000, oor_strat, oor_oracle),
      prop_sub("recover_arbitrary_points", 6000, 120000, pts_strat, pts_oracle),
      prop_sub("other_entry_points", 3000, 60000, api_strat, api_oracle),
      enum_sub(
        "degree_at_huge_thresholds",
        |t| 2 * huge_thresholds(t).len() as u64,
        |t, i| {
          let v = huge_thresholds(t);
          HugeCase { t: v[(i / 2) as usize], secret: "123456789".into(), seed: 77 + i, mode: (i % 2) as u8 }
        },
        huge_oracle,
      ),
    ],
  }
}
