//! C07 The share field is the integers mod 2^128+12451 with one canonical encoding.

use crate::bigmodel::*;
use crate::engine::*;
use crate::gens::*;
use ff::{Field, PrimeField};
use num_bigint::BigUint;
use num_traits::{One, Zero};
use proptest::prelude::*;
use serde::{Deserialize, Serialize};
use serde_json::json;
use star_sharks::{Fp, FpRepr};

fn b(n: u128) -> BigUint {
  BigUint::from(n)
}

/// the boundary set (all reduced mod p, deduplicated, sorted)
pub fn boundary() -> Vec<BigUint> {
  let p = p();
  let one = BigUint::one();
  let mut v: Vec<BigUint> = vec![
    b(0),
    b(1),
    b(2),
    b(3),
    b(4),
    b((1 << 32) - 1),
    b(1 << 32),
    b((1 << 63) - 1),
    b(1 << 63),
    b((1 << 63) + 1),
    b(u64::MAX as u128 - 1),
    b(u64::MAX as u128),
    b(1 << 64),
    b((1 << 64) + 1),
    b(1 << 65),
    b(1 << 96),
    b((1 << 126) + 7),
    b((1 << 127) - 1),
    b(1 << 127),
    b((1 << 127) + 1),
    b((1 << 127) + 6225),
    b((1 << 127) + 6226),
    b(u128::MAX - 12451),
    b(u128::MAX - 1),
    b(u128::MAX),
    &one << 128,
    (&one << 128) + b(1),
    b(12450),
    b(12451),
    b(12452),
    (&p - &one) >> 1,
    ((&p - &one) >> 1) - &one,
    (&p + &one) >> 1,
    &p - b(12451),
    &p - b(12452),
    &p - b(4),
    &p - b(3),
    &p - b(2),
    &p - b(1),
    // values whose products / inverses land next to the boundaries
    invm(&b(2)).unwrap(),
    invm(&b(3)).unwrap(),
    invm(&b(1 << 64)).unwrap(),
    invm(&(&one << 128)).unwrap(),
    negm(&invm(&b(12451)).unwrap()),
    b(0xFFFF_FFFF_0000_0000_FFFF_FFFF_0000_0000),
    b(0x0000_0000_FFFF_FFFF_0000_0000_FFFF_FFFF),
    (b(u64::MAX as u128) << 64) + b(12450),
  ];
  for x in v.iter_mut() {
    *x = &*x % &p;
  }
  v.sort();
  v.dedup();
  // The same boundaries for the INTERNAL representation: implementations keep elements in
  // Montgomery form x * 2^192 mod p, so limb-level mistakes show at values whose internal form
  // is next to a limb / modulus boundary, i.e. at b * 2^-192 mod p for every boundary b above.
  // (If the implementation is not Montgomery-based these are just more operands.)
  let r_inv = invm(&(&one << 192)).unwrap();
  let internal: Vec<BigUint> = v.iter().map(|b| mulm(b, &r_inv)).collect();
  v.extend(internal);
  v.sort();
  v.dedup();
  v
}

fn fe(a: &BigUint) -> Result<Fp, String> {
  big_to_fe(a).ok_or_else(|| format!("from_repr refused the canonical encoding of {a}"))
}

fn near_boundary(a: &BigUint) -> bool {
  let p = p();
  let marks = [b(0), b(1 << 64), &BigUint::one() << 128, (&p - 1u32) >> 1, p.clone(), b(1 << 127), b(1 << 63)];
  marks.iter().any(|m| {
    let d = if a > m { a - m } else { m - a };
    d <= b(2)
  })
}

fn check_eq(what: &str, got: &Fp, want: &BigUint, ctx: &str) -> Result<(), String> {
  let g = fe_to_big(got);
  if &g != want {
    return Err(format!("{what} disagrees with integer arithmetic mod p: got {g}, want {want} ({ctx})"));
  }
  Ok(())
}

pub fn binary(a: &BigUint, bb: &BigUint, st: &mut Stats) -> Result<(), String> {
  let (fa, fb) = (fe(a)?, fe(bb)?);
  let ctx = format!("a={a} b={bb}");
  check_eq("a+b", &(fa + fb), &addm(a, bb), &ctx)?;
  check_eq("a-b", &(fa - fb), &subm(a, bb), &ctx)?;
  check_eq("a*b", &(fa * fb), &mulm(a, bb), &ctx)?;
  check_eq("b-a", &(fb - fa), &subm(bb, a), &ctx)?;
  // reference and assign forms
  check_eq("a+&b", &(fa + &fb), &addm(a, bb), &ctx)?;
  check_eq("a*&b", &(fa * &fb), &mulm(a, bb), &ctx)?;
  let mut t = fa;
  t += fb;
  check_eq("a+=b", &t, &addm(a, bb), &ctx)?;
  let mut t = fa;
  t -= fb;
  check_eq("a-=b", &t, &subm(a, bb), &ctx)?;
  let mut t = fa;
  t *= fb;
  check_eq("a*=b", &t, &mulm(a, bb), &ctx)?;
  let mut t = fa;
  t += &fb;
  check_eq("a+=&b", &t, &addm(a, bb), &ctx)?;
  // sqrt_ratio / sqrt_alt, per the contract in the ff::Field documentation
  {
    let (flag, r) = Fp::sqrt_ratio(&fa, &fb);
    let flag = bool::from(flag);
    let rb = fe_to_big(&r);
    let g = fe_to_big(&Fp::ROOT_OF_UNITY);
    let verdict = if a.is_zero() {
      flag && rb.is_zero()
    } else if bb.is_zero() {
      !flag && rb.is_zero()
    } else {
      let q = mulm(a, &invm(bb).unwrap());
      if is_qr(&q) {
        flag && mulm(&rb, &rb) == q
      } else {
        !flag && mulm(&rb, &rb) == mulm(&g, &q)
      }
    };
    if !verdict {
      return Err(format!("sqrt_ratio(num, div) breaks its documented contract: returned ({flag}, {rb}) ({ctx}; num = a, div = b)"));
    }
    let (f2, r2) = fa.sqrt_alt();
    let (f3, r3) = Fp::sqrt_ratio(&fa, &Fp::ONE);
    if bool::from(f2) != bool::from(f3) || mulm(&fe_to_big(&r2), &fe_to_big(&r2)) != mulm(&fe_to_big(&r3), &fe_to_big(&r3)) {
      return Err(format!("sqrt_alt(a) disagrees with sqrt_ratio(a, 1) ({ctx})"));
    }
  }
  // remaining operator forms and the trait-provided entry points
  check_eq("a-&b", &(fa - &fb), &subm(a, bb), &ctx)?;
  let mut t = fa;
  t -= &fb;
  check_eq("a-=&b", &t, &subm(a, bb), &ctx)?;
  let mut t = fa;
  t *= &fb;
  check_eq("a*=&b", &t, &mulm(a, bb), &ctx)?;
  {
    use std::iter::{Product, Sum};
    let three = [fa, fb, fa];
    check_eq("sum of [a,b,a]", &Fp::sum(three.iter()), &addm(&addm(a, bb), a), &ctx)?;
    check_eq("sum of [a,b,a] (owned)", &Fp::sum(three.iter().copied()), &addm(&addm(a, bb), a), &ctx)?;
    check_eq("product of [a,b,a]", &Fp::product(three.iter()), &mulm(&mulm(a, bb), a), &ctx)?;
    check_eq("product of [a,b,a] (owned)", &Fp::product(three.iter().copied()), &mulm(&mulm(a, bb), a), &ctx)?;
    let none: [Fp; 0] = [];
    check_eq("empty sum", &Fp::sum(none.iter()), &BigUint::zero(), &ctx)?;
    check_eq("empty product", &Fp::product(none.iter()), &BigUint::one(), &ctx)?;
  }
  {
    use ff::derive::subtle::{self, ConditionallySelectable, ConstantTimeEq};
    if bool::from(fa.ct_eq(&fb)) != (a == bb) {
      return Err(format!("ct_eq disagrees with integer equality ({ctx})"));
    }
    check_eq("conditional_select(a,b,0)", &Fp::conditional_select(&fa, &fb, subtle::Choice::from(0)), a, &ctx)?;
    check_eq("conditional_select(a,b,1)", &Fp::conditional_select(&fa, &fb, subtle::Choice::from(1)), bb, &ctx)?;
  }
  // equality agrees with integer equality
  if (fa == fb) != (a == bb) {
    return Err(format!("== disagrees with integer equality ({ctx})"));
  }
  st.evals(24);
  let sum = a + bb;
  let prod = a * bb;
  if near_boundary(a) || near_boundary(bb) || near_boundary(&addm(a, bb)) || near_boundary(&mulm(a, bb)) || sum >= p() || prod.bits() > 128 {
    st.nontrivial(&(a.to_bytes_le(), bb.to_bytes_le()));
  }
  Ok(())
}

fn exp_limbs(e: &BigUint) -> [u64; 3] {
  let mut l = [0u64; 3];
  for (i, d) in e.to_u64_digits().iter().enumerate().take(3) {
    l[i] = *d;
  }
  l
}

pub fn unary(a: &BigUint, exps: &[BigUint], st: &mut Stats) -> Result<(), String> {
  let fa = fe(a)?;
  let ctx = format!("a={a}");
  check_eq("-a", &(-fa), &negm(a), &ctx)?;
  check_eq("double", &fa.double(), &addm(a, a), &ctx)?;
  check_eq("square", &fa.square(), &mulm(a, a), &ctx)?;
  let inv: Option<Fp> = fa.invert().into();
  match (inv, invm(a)) {
    (None, None) => {}
    (Some(i), Some(w)) => {
      check_eq("invert", &i, &w, &ctx)?;
      check_eq("a*invert(a)", &(fa * i), &BigUint::one(), &ctx)?;
    }
    (g, w) => return Err(format!("invert: got {:?}, model {:?} ({ctx})", g.map(|x| fe_to_big(&x)), w)),
  }
  let r: Option<Fp> = fa.sqrt().into();
  let want_sq = a.is_zero() || is_qr(a);
  match r {
    Some(r) => {
      if !want_sq {
        return Err(format!("sqrt returned a root for a non-residue ({ctx})"));
      }
      check_eq("sqrt(a)^2", &r.square(), a, &ctx)?;
    }
    None => {
      if want_sq {
        return Err(format!("sqrt returned none for a square ({ctx})"));
      }
    }
  }
  for e in exps {
    let l = exp_limbs(e);
    check_eq("pow", &fa.pow(l), &powm(a, e), &format!("{ctx} e={e}"))?;
    check_eq("pow_vartime", &fa.pow_vartime(l), &powm(a, e), &format!("{ctx} e={e}"))?;
  }
  if fa.is_zero_vartime() != a.is_zero() || bool::from(fa.is_zero()) != a.is_zero() {
    return Err(format!("is_zero wrong ({ctx})"));
  }
  check_eq("cube", &fa.cube(), &mulm(&mulm(a, a), a), &ctx)?;
  if bool::from(fa.is_even()) == bool::from(fa.is_odd()) {
    return Err(format!("is_even and is_odd agree ({ctx})"));
  }
  match Fp::from_str_vartime(&a.to_string()) {
    Some(f) => check_eq("from_str_vartime(decimal)", &f, a, &ctx)?,
    None => return Err(format!("from_str_vartime refused the decimal form of an in-range integer ({ctx})")),
  }
  if bool::from(fa.is_odd()) != (a % 2u32 == BigUint::one()) {
    return Err(format!("is_odd disagrees with the integer's parity ({ctx})"));
  }
  st.evals(10 + 2 * exps.len() as u64);
  if near_boundary(a) {
    st.nontrivial(&a.to_bytes_le());
  }
  Ok(())
}

#[derive(Clone, Debug, Serialize, Deserialize)]
pub struct Pair {
  pub a: String,
  pub b: String,
}
fn parse(s: &str) -> BigUint {
  s.parse::<BigUint>().unwrap_or_default() % p()
}

#[derive(Clone, Debug, Serialize, Deserialize)]
pub struct UniCase {
  pub a: Hx,
  pub b: Hx,
  pub e: Hx,
}

fn uni_strat(_t: Tier) -> BoxedStrategy<UniCase> {
  // operands: 24 generated bytes reduced mod p (uniform up to negligible bias), or
  // a boundary value plus/minus a small generated offset
  let operand = prop_oneof![
    3 => uniform_bytes(24, 24),
    1 => (any::<u16>(), 0u8..5, any::<bool>()).prop_map(|(i, d, neg)| {
      let bs = boundary();
      let v = &bs[idx(i, bs.len())];
      let r = if neg { subm(v, &b(d as u128)) } else { addm(v, &b(d as u128)) };
      Hx(le24(&r).to_vec())
    }),
  ];
  (operand.clone(), operand, uniform_bytes(24, 24))
    .prop_map(|(a, b, e)| UniCase { a, b, e })
    .boxed()
}

fn uni_oracle(c: &UniCase, st: &mut Stats) -> Result<(), String> {
  let a = big_from_le(&c.a) % p();
  let bb = big_from_le(&c.b) % p();
  let e = big_from_le(&c.e);
  binary(&a, &bb, st)?;
  unary(&a, &[e, p() - 2u32], st)?;
  if st.want_sample() {
    st.sample(json!({"a": a.to_string(), "b": bb.to_string()}));
  }
  Ok(())
}

#[derive(Clone, Debug, Serialize, Deserialize)]
pub struct DecCase {
  pub s: Hx,
}

fn dec_strat(_t: Tier) -> BoxedStrategy<DecCase> {
  let one = BigUint::one();
  let specials: Vec<BigUint> = vec![
    p(),
    p() + 1u32,
    p() * 2u32 - 1u32,
    p() * 2u32,
    &one << 129,
    (&one << 129) - 1u32,
    (&one << 192) - 1u32,
    &one << 136,
    &one << 191,
    p() - 1u32,
    p() - 2u32,
    (&one << 128) + 12450u32,
    (&one << 128) + 12452u32,
    &one << 128,
  ];
  prop_oneof![
    // canonical
    3 => uniform_bytes(24, 24).prop_map(|h| DecCase { s: Hx(le24(&(big_from_le(&h) % p())).to_vec()) }),
    // uniform 24-byte strings (almost all non-canonical: high limb set)
    2 => uniform_bytes(24, 24).prop_map(|s| DecCase { s }),
    // canonical value + k*p (same residue, different string), any k that fits
    3 => (uniform_bytes(24, 24), 1u64..u64::MAX >> 2).prop_map(|(h, k)| {
      let v = big_from_le(&h) % p() + p() * BigUint::from(k);
      DecCase { s: Hx(le24(&(v % (BigUint::one() << 192))).to_vec()) }
    }),
    // a single high bit set above bit 128 on a small value
    2 => (uniform_bytes(16, 16), 129usize..192).prop_map(|(h, bit)| {
      let v = big_from_le(&h) + (BigUint::one() << bit);
      DecCase { s: Hx(le24(&v).to_vec()) }
    }),
    2 => (any::<u16>(), 0u8..4).prop_map(move |(i, d)| {
      let v = &specials[idx(i, specials.len())] + BigUint::from(d);
      DecCase { s: Hx(le24(&(v % (BigUint::one() << 192))).to_vec()) }
    }),
  ]
  .boxed()
}

pub fn dec_oracle(c: &DecCase, st: &mut Stats) -> Result<(), String> {
  let mut arr = [0u8; 24];
  if c.s.len() != 24 {
    return Ok(());
  }
  arr.copy_from_slice(&c.s);
  let v = big_from_le(&arr);
  let got: Option<Fp> = Fp::from_repr(FpRepr(arr)).into();
  let got_vt: Option<Fp> = Fp::from_repr_vartime(FpRepr(arr));
  if got.is_some() != got_vt.is_some() {
    return Err(format!("from_repr and from_repr_vartime disagree on {}", hx(&arr)));
  }
  if v >= p() {
    st.class("non-canonical");
    st.nontrivial(&arr);
    if let Some(f) = got {
      return Err(format!(
        "encoding of an integer >= p accepted: {} (= {v}) decoded to {}",
        hx(&arr),
        fe_to_big(&f)
      ));
    }
  } else {
    st.class("canonical");
    let f = got.ok_or_else(|| format!("canonical encoding refused: {}", hx(&arr)))?;
    let back = f.to_repr();
    if back.as_ref() != &arr[..] {
      return Err(format!("to_repr(from_repr(s)) != s for {}: {}", hx(&arr), hx(back.as_ref())));
    }
    // independent construction by arithmetic must give the same element
    let f2 = big_to_fe_arith(&v);
    if f2 != f {
      return Err(format!("element built arithmetically from {v} differs from from_repr of its encoding"));
    }
    if near_boundary(&v) {
      st.nontrivial(&arr);
    }
    // small values: From<u64> and from_u128
    if v.bits() <= 64 {
      let u = v.to_u64_digits().first().cloned().unwrap_or(0);
      if Fp::from(u) != f {
        return Err(format!("Fp::from({u}u64) differs from from_repr"));
      }
    }
    if v.bits() <= 128 {
      let d = v.to_u64_digits();
      let u = (d.first().cloned().unwrap_or(0) as u128) | ((d.get(1).cloned().unwrap_or(0) as u128) << 64);
      if Fp::from_u128(u) != f {
        return Err(format!("Fp::from_u128({u}) differs from from_repr"));
      }
    }
  }
  if st.want_sample() {
    st.sample(json!({"bytes": hx(&arr), "integer": v.to_string(), "accepted": got.is_some()}));
  }
  Ok(())
}

fn parse_modulus(s: &str) -> Option<BigUint> {
  let s = s.trim();
  if let Some(h) = s.strip_prefix("0x") {
    BigUint::parse_bytes(h.as_bytes(), 16)
  } else {
    BigUint::parse_bytes(s.as_bytes(), 10)
  }
}

#[derive(Clone, Debug, Serialize, Deserialize)]
pub struct Unit {
  pub i: u64,
}

fn constants(_c: &Unit, st: &mut Stats) -> Result<(), String> {
  let p = p();
  let one = BigUint::one();
  // factorisation of p-1, re-verified here
  let q = (&one << 127) + 6225u32;
  if &q * 2u32 != &p - &one || !is_probable_prime(&q) || !is_probable_prime(&p) {
    return Err("harness: factorisation p-1 = 2*q did not re-verify".into());
  }
  let m = parse_modulus(Fp::MODULUS).ok_or("MODULUS string does not parse")?;
  if m != p {
    return Err(format!("MODULUS = {m}, want {p}"));
  }
  if Fp::NUM_BITS != 129 {
    return Err(format!("NUM_BITS = {}, want 129", Fp::NUM_BITS));
  }
  if Fp::CAPACITY != 128 {
    return Err(format!("CAPACITY = {}, want 128", Fp::CAPACITY));
  }
  let two_inv = fe_to_big(&Fp::TWO_INV);
  if mulm(&two_inv, &b(2)) != one {
    return Err(format!("TWO_INV = {two_inv}: 2*TWO_INV != 1"));
  }
  // p - 1 = 2^S * t with t odd
  let s = Fp::S;
  let t = (&p - &one) >> (s as usize);
  if (&t << (s as usize)) != &p - &one || (&t % 2u32).is_zero() {
    return Err(format!("S = {s}: (p-1) >> S is not odd or not exact"));
  }
  let g = fe_to_big(&Fp::MULTIPLICATIVE_GENERATOR);
  // order p-1 = 2q  <=>  g^2 != 1 and g^q != 1 (and g != 0)
  let g_ok_order = !g.is_zero() && powm(&g, &b(2)) != one && powm(&g, &q) != one;
  let g_nonres = !is_qr(&g);
  let root = fe_to_big(&Fp::ROOT_OF_UNITY);
  let root_inv = fe_to_big(&Fp::ROOT_OF_UNITY_INV);
  let delta = fe_to_big(&Fp::DELTA);
  st.note(format!(
    "published constants: generator={g} S={s} root_of_unity={root} root_of_unity_inv={root_inv} delta={delta} two_inv={two_inv}"
  ));
  if !g_ok_order || !g_nonres {
    return Err(format!(
      "MULTIPLICATIVE_GENERATOR = {g} does not have order p-1 / is a quadratic residue (g^((p-1)/2) = {}); ROOT_OF_UNITY = {root}",
      powm(&g, &q)
    ));
  }
  // ROOT_OF_UNITY: primitive 2^S-th root of unity, = g^t
  let two_s = &one << (s as usize);
  let mut primitive = powm(&root, &two_s) == one;
  if s >= 1 {
    primitive = primitive && powm(&root, &(&two_s >> 1)) != one;
  }
  if !primitive {
    return Err(format!("ROOT_OF_UNITY = {root} is not a primitive 2^{s}-th root of unity"));
  }
  if root != powm(&g, &t) {
    return Err(format!("ROOT_OF_UNITY = {root} != generator^t"));
  }
  if mulm(&root, &root_inv) != one {
    return Err(format!("ROOT_OF_UNITY * ROOT_OF_UNITY_INV != 1 ({root}, {root_inv})"));
  }
  if delta != powm(&g, &two_s) {
    return Err(format!("DELTA = {delta} != generator^(2^S)"));
  }
  if delta == one || powm(&delta, &t) != one {
    return Err(format!("DELTA = {delta} does not generate the subgroup of order t"));
  }
  // ZERO / ONE
  if !fe_to_big(&Fp::ZERO).is_zero() || fe_to_big(&Fp::ONE) != one {
    return Err("ZERO / ONE constants wrong".into());
  }
  st.evals(12);
  st.nontrivial(&"constants");
  st.nontrivial(&"constants-generator");
  Ok(())
}

pub fn property() -> Property {
  let nb = boundary().len() as u64;
  Property {
    id: "C07",
    level: "exploration",
    rule: "complete boundary lattice B x B (B = values adjacent to 0, 1, 2^32, 2^63, 2^64, 2^127, 2^128, (p-1)/2, p, and inverses landing there) for every binary operation (all operator forms, Sum/Product, ct_eq, conditional_select, the sqrt_ratio contract of ff::Field) and B for every unary one (neg, double, square, cube, invert, sqrt, sqrt_alt, pow, is_zero, parity, from_str_vartime), plus generated uniform / near-boundary operands and 192-bit exponents; 24-byte strings for decoding (canonical, value+k*p, high bit set, specials around p, 2p, 2^129, 2^192); published constants checked against the ff::PrimeField documentation. Oracle: num-bigint arithmetic mod p. Non-trivial: an operand or result within 2 of a boundary mark, a carry past p or past 128 bits in the integer result, or a non-canonical string; distinct by operand values.",
    assumptions: vec![
      "num-bigint 0.3.3 is the arithmetic yardstick",
      "p-1 = 2*(2^127+6225) is re-verified at run time by Miller-Rabin (24 bases)",
      "2^258 operand pairs are sampled, the lattice part is complete",
    ],
    subs: vec![
      enum_sub("constants", |_| 1, |_, i| Unit { i }, constants),
      enum_sub(
        "lattice_binary",
        move |_| nb * nb,
        move |_, i| {
          let bs = boundary();
          Pair {
            a: bs[(i / nb) as usize].to_string(),
            b: bs[(i % nb) as usize].to_string(),
          }
        },
        |c: &Pair, st: &mut Stats| {
          let r = binary(&parse(&c.a), &parse(&c.b), st);
          if st.want_sample() {
            st.sample(json!({"a": c.a, "b": c.b}));
          }
          r
        },
      ),
      enum_sub(
        "lattice_unary",
        move |_| nb,
        move |_, i| {
          let bs = boundary();
          Pair {
            a: bs[i as usize].to_string(),
            b: String::new(),
          }
        },
        |c: &Pair, st: &mut Stats| {
          // every boundary value also serves as an exponent
          let exps: Vec<BigUint> = boundary();
          unary(&parse(&c.a), &exps, st)
        },
      ),
      // every element of [2^128, p): the only values that do not fit 128 bits
      enum_sub(
        "band_above_2_128",
        |_| 12451,
        |_, i: u64| Pair { a: ((BigUint::one() << 128usize) + BigUint::from(i)).to_string(), b: String::new() },
        |c: &Pair, st: &mut Stats| {
          let a = parse(&c.a);
          let r = unary(&a, &[b(2), b(3), p() - 2u32], st);
          st.nontrivial(&c.a);
          r?;
          binary(&a, &(p() - b(1)), st)?;
          binary(&a, &a, st)
        },
      ),
      prop_sub("generated_ops", 50_000, 3_000_000, uni_strat, uni_oracle),
      prop_sub("decode", 60_000, 3_000_000, dec_strat, dec_oracle),
      crate::fuzzentry::fuzz_sub("fuzzbytes_field", "field", "C07", 20000, 400000),
      crate::fuzzentry::artefact_sub("artefact_field", "field", "C07"),
    ],
  }
}
