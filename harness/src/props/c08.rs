//! C08 Wire encodings of shares and reports round-trip and reject malformed input.

use crate::engine::*;
use crate::gens::*;
use crate::layout::{self, Verdict};
use crate::starx;
use crate::wiregen::*;
use proptest::prelude::*;
use serde::{Deserialize, Serialize};
use serde_json::json;
use std::convert::TryFrom;

pub const DECODERS: [&str; 4] = ["adss::Share", "sta_rs::Share", "sta_rs::Message", "star_sharks::Share"];

/// run decoder `d` on `s`; Some(re-encoding) when accepted
pub fn decode_reencode(d: usize, s: &[u8]) -> Option<Vec<u8>> {
  match d {
    0 => adss::Share::from_bytes(s).map(|v| v.to_bytes()),
    1 => sta_rs::Share::from_bytes(s).map(|v| v.to_bytes()),
    2 => sta_rs::Message::from_bytes(s).map(|v| v.to_bytes()),
    _ => star_sharks::Share::try_from(s).ok().map(|v| Vec::<u8>::from(&v)),
  }
}

pub fn model_verdict(d: usize, s: &[u8]) -> (Verdict, Option<Vec<u8>>) {
  match d {
    0 | 1 => layout::share_verdict(s),
    2 => layout::report_verdict(s),
    _ => layout::sharks_share_verdict(s),
  }
}

/// differential judgement of one string under one decoder
pub fn judge(d: usize, s: &[u8], label: &str, st: &mut Stats) -> Result<(), String> {
  let (verdict, canon) = model_verdict(d, s);
  let name = DECODERS[d];
  let got = no_panic(|| decode_reencode(d, s)).map_err(|p| {
    format!("{name} neither accepted nor rejected (panicked: {p}) on {label} string {}", hex::encode(s))
  })?;
  st.evals(1);
  match (&verdict, &got) {
    (Verdict::MustAccept, None) => {
      return Err(format!("{name} rejected a well-formed string ({label}): {}", hex::encode(s)));
    }
    (Verdict::MustReject, Some(re)) => {
      return Err(format!(
        "{name} accepted a structurally invalid string ({label}): {} -> re-encodes as {}",
        hex::encode(s),
        hex::encode(re)
      ));
    }
    _ => {}
  }
  if let Some(re) = &got {
    let canon = canon.as_ref().expect("model gives a canonical form whenever it does not reject");
    if re != canon {
      return Err(format!(
        "{name}: re-encoding of an accepted string is not its canonical form ({label}): input {} re-encoded {} canonical {}",
        hex::encode(s),
        hex::encode(re),
        hex::encode(canon)
      ));
    }
    // decoding the canonical form yields the same value again (idempotent)
    match no_panic(|| decode_reencode(d, re)) {
      Ok(Some(re2)) if &re2 == re => {}
      other => {
        return Err(format!(
          "{name}: canonical form {} does not decode back to itself: {:?}",
          hex::encode(re),
          other.map(|o| o.map(hex::encode))
        ))
      }
    }
  }
  let canonical_input = verdict == Verdict::MustAccept && canon.as_deref() == Some(s);
  let cls = match (&verdict, got.is_some()) {
    (Verdict::MustAccept, _) => "accept",
    (Verdict::MustReject, _) => "reject",
    (Verdict::May, true) => "may-accepted",
    (Verdict::May, false) => "may-rejected",
  };
  st.class(&format!("{name}:{cls}"));
  if !canonical_input {
    st.nontrivial(&(d, s));
  }
  Ok(())
}

fn wire_oracle(c: &WireCase, st: &mut Stats) -> Result<(), String> {
  st.class(&format!("base={}", c.base.kind()));
  let fam = match &c.family {
    Family::Identity => "identity",
    Family::AllPrefixes => "all-prefixes",
    Family::AllLengthFields => "all-length-fields",
    Family::AllOffsets => "all-offsets",
    Family::Append(_) => "append",
    Family::Splice { .. } => "splice",
    Family::FeOutOfRange { .. } => "element-out-of-range",
  };
  st.class(&format!("family={fam}"));
  let mut first: Option<Vec<u8>> = None;
  c.for_each(|s, label| {
    if first.is_none() {
      first = Some(s.to_vec());
    }
    for d in 0..4 {
      judge(d, s, label, st)?;
    }
    Ok(())
  })?;
  // an honest base must be accepted as is by its own decoder
  if c.base.is_honest() {
    if let Family::Identity = c.family {
      let s = first.unwrap_or_default();
      let d = if c.base.is_report() { 2 } else { 0 };
      let (v, canon) = model_verdict(d, &s);
      if v != Verdict::MustAccept || canon.as_deref() != Some(&s[..]) {
        return Err(format!(
          "honest {} does not follow the documented layout (model verdict {:?}): {}",
          c.base.kind(),
          v,
          hex::encode(&s)
        ));
      }
    }
  }
  if st.want_sample() {
    st.sample(json!({"base": format!("{:?}", c.base), "family": fam}));
  }
  Ok(())
}

#[derive(Clone, Debug, Serialize, Deserialize)]
pub struct RawCase {
  pub s: Hx,
}

fn raw_strat(_t: Tier) -> BoxedStrategy<RawCase> {
  prop_oneof![bytes(600), small_bytes(100), small_string()].prop_map(|s| RawCase { s }).boxed()
}

fn raw_oracle(c: &RawCase, st: &mut Stats) -> Result<(), String> {
  for d in 0..4 {
    judge(d, &c.s, "raw", st)?;
  }
  helpers(&c.s, st)
}

/// load_u32 / load_bytes / AccessStructure::from_bytes against the model
pub fn helpers(s: &[u8], st: &mut Stats) -> Result<(), String> {
  let got = no_panic(|| adss::load_bytes(s).map(|b| b.to_vec()))
    .map_err(|p| format!("load_bytes panicked ({p}) on {}", hex::encode(s)))?;
  let want = layout::read_chunk(s, 0).map(|r| s[r].to_vec());
  if got != want {
    return Err(format!(
      "load_bytes({}) = {:?}, layout model says {:?}",
      hex::encode(s),
      got.map(hex::encode),
      want.map(hex::encode)
    ));
  }
  let g32 = no_panic(|| adss::load_u32(s)).map_err(|p| format!("load_u32 panicked ({p})"))?;
  let w32 = if s.len() == 4 {
    Some(u32::from_le_bytes([s[0], s[1], s[2], s[3]]))
  } else {
    None
  };
  if g32 != w32 {
    return Err(format!("load_u32({}) = {:?}, want {:?}", hex::encode(s), g32, w32));
  }
  let ga = no_panic(|| adss::AccessStructure::from_bytes(s).map(|a| a.to_bytes().to_vec()))
    .map_err(|p| format!("AccessStructure::from_bytes panicked ({p})"))?;
  let wa = w32.map(|v| v.to_le_bytes().to_vec());
  if ga != wa {
    return Err(format!("AccessStructure::from_bytes({}) round trip = {:?}, want {:?}", hex::encode(s), ga, wa));
  }
  // store_bytes is the inverse of load_bytes on its own output
  if s.len() < 5000 {
    let mut out = Vec::new();
    adss::store_bytes(s, &mut out);
    if out != layout::chunk(s) {
      return Err(format!("store_bytes({}) does not produce u32le(len) || data", hex::encode(s)));
    }
  }
  st.evals(4);
  if want.is_none() {
    st.nontrivial(&("helpers", s));
  }
  Ok(())
}

#[derive(Clone, Debug, Serialize, Deserialize)]
pub struct HonestCase {
  pub m: Hx,
  pub r: Hx,
  pub epoch: Hx,
  pub t: u32,
  pub aux: Option<Hx>,
}

fn honest_strat(tier: Tier) -> BoxedStrategy<HonestCase> {
  let max = tier.pick(2000, 20000);
  (bytes(max), bytes(300), bytes(40), prop_oneof![threshold(tier, 0), Just(0u32), Just(u32::MAX)], proptest::option::of(bytes(600)))
    .prop_map(|(m, r, epoch, t, aux)| HonestCase { m, r, epoch, t, aux })
    .boxed()
}

/// value -> bytes -> value is the identity, and the bytes follow the layout
fn honest_oracle(c: &HonestCase, st: &mut Stats) -> Result<(), String> {
  // ADSS share of (t, m, r); thresholds 0 and 2^32-1 are fine for sharing
  // only when small (a polynomial of degree t-1 is materialised): keep t <= 130
  let t_adss = if c.t > 130 { 0 } else { c.t };
  let sh = adss::Commune::new(t_adss, c.m.0.clone(), c.r.0.clone(), None)
    .share()
    .map_err(|e| format!("share failed: {e}"))?;
  let b = sh.to_bytes();
  let back = adss::Share::from_bytes(&b).ok_or_else(|| format!("honest share does not decode: {}", hex::encode(&b)))?;
  if back != sh {
    return Err(format!("share value changed across encode/decode: {}", hex::encode(&b)));
  }
  let f = layout::share_fields(&b).ok_or_else(|| format!("honest share is not laid out as documented: {}", hex::encode(&b)))?;
  let (v, canon) = layout::share_verdict(&b);
  if v != Verdict::MustAccept || canon.as_deref() != Some(&b[..]) {
    return Err(format!("honest share is not canonical under the documented layout: {}", hex::encode(&b)));
  }
  if layout::share_threshold(&b) != Some(t_adss) {
    return Err(format!("threshold field is not the 4-byte little-endian threshold {t_adss}: {}", hex::encode(&b[..4])));
  }
  if f.c.len() != c.m.len() || f.d.len() != c.r.len() || f.j.len() != 64 || f.trailing != 0 || f.s.len() % 24 != 0 || f.s.len() < 48 {
    return Err(format!(
      "field sizes off: |C|={} (message {}), |D|={} (coins {}), |J|={}, |S|={}",
      f.c.len(),
      c.m.len(),
      f.d.len(),
      c.r.len(),
      f.j.len(),
      f.s.len()
    ));
  }
  st.evals(2);
  // report
  let t_star = c.t.clamp(1, 130);
  let g = starx::mg(&c.m, t_star, &c.epoch);
  let rnd = starx::local_rnd(&g);
  let msg = starx::report(&g, &rnd, c.aux.as_ref().map(|a| &a[..]))?;
  let mb = msg.to_bytes();
  let back = sta_rs::Message::from_bytes(&mb).ok_or_else(|| format!("honest report does not decode: {}", hex::encode(&mb)))?;
  if back != msg {
    return Err(format!("report value changed across encode/decode: {}", hex::encode(&mb)));
  }
  let rf = layout::report_fields(&mb).ok_or_else(|| format!("honest report is not laid out as documented: {}", hex::encode(&mb)))?;
  let (v, canon) = layout::report_verdict(&mb);
  if v != Verdict::MustAccept || canon.as_deref() != Some(&mb[..]) {
    return Err(format!("honest report is not canonical under the documented layout: {}", hex::encode(&mb)));
  }
  let payload_len = 4 + c.m.len() + c.aux.as_ref().map(|a| 4 + a.len()).unwrap_or(0);
  // the ciphertext chunk may carry more than the payload (e.g. a nonce), never less
  if rf.ct.len() < payload_len || rf.tag.len() != 32 || rf.trailing != 0 {
    return Err(format!("report field sizes off: |ct|={} (payload {payload_len}) |tag|={}", rf.ct.len(), rf.tag.len()));
  }
  if mb[rf.ct.clone()] != msg.ciphertext.to_bytes()[..] || mb[rf.tag.clone()] != msg.tag[..] || mb[rf.share.clone()] != msg.share.to_bytes()[..] {
    return Err("report chunks are not (ciphertext, share, tag) in this order".into());
  }
  // the star share wrapper is the same encoding as the inner ADSS share
  let sb = msg.share.to_bytes();
  let s2 = sta_rs::Share::from_bytes(&sb).ok_or("honest star share does not decode")?;
  if s2 != msg.share {
    return Err("star share changed across encode/decode".into());
  }
  // inner Shamir share
  let sf = layout::share_fields(&sb).ok_or("star share layout")?;
  let inner = &sb[sf.s.clone()];
  let sk = star_sharks::Share::try_from(inner).map_err(|e| format!("inner Shamir share does not decode: {e}"))?;
  if Vec::<u8>::from(&sk) != inner {
    return Err("inner Shamir share changed across decode/encode".into());
  }
  st.evals(4);
  st.nontrivial(&(c.t, c.m.len(), c.r.len(), c.aux.as_ref().map(|a| a.len()), fp(&c.m.0)));
  st.class(match c.t {
    0 => "t=0",
    1..=130 => "t=1-130",
    _ => "t=huge(share built with t=0/clamped)",
  });
  if st.want_sample() {
    st.sample(json!({"t": c.t, "m_len": c.m.len(), "coins_len": c.r.len(), "aux_len": c.aux.as_ref().map(|a| a.len()), "share_bytes": hx(&b)}));
  }
  Ok(())
}

pub fn property() -> Property {
  Property {
    id: "C08",
    level: "fault_enumeration",
    rule: "strings = honest and model-built encodings of shares and reports under complete per-base mutation families (every prefix; every u32 length field x 21 boundary values; 12 fault kinds at every byte offset), appended bytes, splices of two encodings, out-of-range field elements, uniform and header-like strings; every string is given to all four decoders. Oracle: an independently written parser of the documented layout with a three-valued verdict (must accept / must reject / either) and the canonical re-encoding; honest values must round-trip and be canonical under the model. Non-trivial: a (decoder, string) pair where the string is not a canonical encoding for that decoder; distinct by (decoder, string).",
    assumptions: vec![
      "trailing bytes after the 64-byte tag inside a share chunk and after the tag chunk of a report are not pinned by documentation or tests: either verdict is allowed there, but an accepting decoder must drop them in the re-encoding",
      "partial trailing bytes (< 24) after the last complete field element of S are accepted and dropped (pinned by sharks' own tests)",
    ],
    subs: vec![
      prop_sub("honest_roundtrip", 1500, 30000, honest_strat, honest_oracle),
      prop_sub("mutation_families", 1200, 40000, wire_case, wire_oracle),
      prop_sub("raw_strings", 30000, 1_000_000, raw_strat, raw_oracle),
      crate::fuzzentry::fuzz_sub("fuzzbytes_decode", "decode", "C08", 20000, 400000),
      crate::fuzzentry::artefact_sub("artefact_decode", "decode", "C08"),
    ],
  }
}
