//! C09 Data from other parties never crashes the receiver.

use crate::engine::*;
use crate::gens::*;
use crate::layout;
use crate::pp::*;
use crate::props::c08::{decode_reencode, DECODERS};
use crate::wiregen::*;
use base64::{engine::Engine as _, prelude::BASE64_STANDARD};
use ppoprf::ppoprf::{Client, Evaluation, Point, ProofDLEQ, Server, ServerPublicKey};
use proptest::collection::vec;
use proptest::prelude::*;
use serde::{Deserialize, Serialize};
use serde_json::json;
use std::convert::TryFrom;

pub const DECODERS_DUMMY: () = ();

fn guard<R>(what: &str, input: impl FnOnce() -> String, f: impl FnOnce() -> R) -> Result<R, String> {
  no_panic(f).map_err(|p| format!("{what} panicked ({p}) on {}", input()))
}

/// all byte decoders on one string
pub fn decoders_on(s: &[u8], st: &mut Stats) -> Result<(), String> {
  for d in 0..4 {
    let r = guard(DECODERS[d], || hex::encode(s), || decode_reencode(d, s))?;
    st.evals(1);
    if r.is_none() {
      st.nontrivial(&(d, s));
      st.class_n("rejected-cleanly", 1);
    } else {
      st.class_n("accepted", 1);
    }
  }
  guard("load_bytes", || hex::encode(s), || adss::load_bytes(s).map(|b| b.len()))?;
  guard("load_u32", || hex::encode(s), || adss::load_u32(s))?;
  guard("AccessStructure::from_bytes", || hex::encode(s), || adss::AccessStructure::from_bytes(s).is_some())?;
  st.evals(3);
  // whatever decodes is handed on to recovery on its own
  if let Ok(Some(sh)) = no_panic(|| adss::Share::from_bytes(s)) {
    guard("adss::recover", || format!("[{}]", hex::encode(s)), || adss::recover(&[sh.clone()]).is_ok())?;
    guard("adss::recover", || format!("[{0}, {0}]", hex::encode(s)), || adss::recover(&[sh.clone(), sh.clone()]).is_ok())?;
    st.evals(2);
    st.class("decoded-share-fed-to-recover");
  }
  if let Ok(Some(sh)) = no_panic(|| sta_rs::Share::from_bytes(s)) {
    guard("share_recover", || format!("[{}]", hex::encode(s)), || sta_rs::share_recover(&[sh.clone()]).is_ok())?;
    st.evals(1);
  }
  if let Ok(Ok(sh)) = no_panic(|| star_sharks::Share::try_from(s)) {
    for t in [0u32, 1, 2, u32::MAX] {
      guard("Sharks::recover", || format!("t={t} [{}]", hex::encode(s)), || star_sharks::Sharks(t).recover(&[sh.clone()]).is_ok())?;
      st.evals(1);
    }
  }
  Ok(())
}

fn wire_oracle(c: &WireCase, st: &mut Stats) -> Result<(), String> {
  st.class(&format!("base={}", c.base.kind()));
  c.for_each(|s, _| decoders_on(s, st))?;
  Ok(())
}

#[derive(Clone, Debug, Serialize, Deserialize)]
pub struct RawCase {
  pub s: Hx,
}
fn raw_strat(_t: Tier) -> BoxedStrategy<RawCase> {
  prop_oneof![bytes(600), small_bytes(100), small_string()].prop_map(|s| RawCase { s }).boxed()
}
fn raw_oracle(c: &RawCase, st: &mut Stats) -> Result<(), String> {
  decoders_on(&c.s, st)?;
  ppoprf_bytes(&c.s, st)
}

// ---------------------------------------------------------------------------
// recovery on structurally valid but degenerate values

#[derive(Clone, Debug, Serialize, Deserialize)]
pub struct RecCase {
  /// encoded shares (model-built, honest or mutated); undecodable ones are skipped
  pub shares: Vec<Base>,
  /// make share i reuse the x of share j
  pub same_x: Vec<(u16, u16)>,
  /// overwrite the x of share i with a special value: 0 = zero, 1 = one, 2 = p-1
  #[serde(default)]
  pub special_x: Vec<(u16, u8)>,
  /// rewrite the threshold word of every share to this value
  pub force_threshold: Option<u32>,
  /// an honest group to mix in: (t, count)
  pub honest_group: Option<(u32, u8)>,
  pub honest_first: bool,
  /// many distinct copies of one generated share: (which share, size selector); the copies get
  /// x = 1, 2, 3, ... and a threshold word they reach
  #[serde(default)]
  pub many: Option<(u16, u8)>,
  /// a copy of one share with another evaluation point and its C (field 0) or D (field 1) chunk cut or
  /// grown to a generated length, everything else equal: (which share, field, new length, put first)
  #[serde(default)]
  pub resized: Option<(u16, u8, u8, bool)>,
}

fn rec_strat(_t: Tier) -> BoxedStrategy<RecCase> {
  (
    vec(prop_oneof![5 => model_share(), 1 => honest_share()], 0..6),
    vec((any::<u16>(), any::<u16>()), 0..3),
    vec((any::<u16>(), 0u8..3), 0..3),
    proptest::option::weighted(0.5, prop_oneof![Just(0u32), Just(1u32), Just(2u32), Just(3u32), Just(u32::MAX), Just(1u32 << 31)]),
    proptest::option::weighted(0.3, (1u32..5, 1u8..6)),
    any::<bool>(),
    proptest::option::weighted(0.15, (any::<u16>(), 0u8..9)),
    proptest::option::weighted(0.3, (any::<u16>(), 0u8..2, prop_oneof![Just(0u8), Just(1u8), Just(31u8), Just(33u8), 0u8..70], any::<bool>())),
  )
    .prop_map(|(shares, same_x, special_x, force_threshold, honest_group, honest_first, many, resized)| RecCase {
      many,
      resized,
      shares,
      same_x,
      special_x,
      force_threshold,
      honest_group,
      honest_first,
    })
    .boxed()
}

fn rec_oracle(c: &RecCase, st: &mut Stats) -> Result<(), String> {
  let mut enc: Vec<Vec<u8>> = Vec::new();
  for b in &c.shares {
    enc.push(b.build()?);
  }
  // duplicate x coordinates
  for (i, j) in &c.same_x {
    if enc.len() >= 2 {
      let (i, j) = (idx(*i, enc.len()), idx(*j, enc.len()));
      if let (Some(fi), Some(fj)) = (layout::share_fields(&enc[i]), layout::share_fields(&enc[j])) {
        if fi.s.len() >= 24 && fj.s.len() >= 24 {
          let x = enc[j][fj.x()].to_vec();
          let r = fi.x();
          enc[i][r].copy_from_slice(&x);
        }
      }
    }
  }
  for (i, v) in &c.special_x {
    if !enc.is_empty() {
      let i = idx(*i, enc.len());
      if let Some(f) = layout::share_fields(&enc[i]) {
        if f.s.len() >= 24 {
          let x = match v % 3 {
            0 => [0u8; 24],
            1 => crate::bigmodel::le24(&num_bigint::BigUint::from(1u8)),
            _ => crate::bigmodel::le24(&(crate::bigmodel::p() - 1u32)),
          };
          let r = f.x();
          enc[i][r].copy_from_slice(&x);
        }
      }
    }
  }
  if !c.special_x.is_empty() {
    st.class("special-x");
  }
  // a large collection of degenerate shares that reaches its own (large) threshold
  if let (Some((which, size)), false) = (c.many, enc.is_empty()) {
    const SIZES: [usize; 9] = [31, 32, 33, 63, 64, 65, 128, 129, 257];
    let n = SIZES[size as usize % SIZES.len()];
    let template = enc[idx(which, enc.len())].clone();
    if let Some(f) = layout::share_fields(&template) {
      if f.s.len() >= 24 {
        for k in 0..n {
          let mut e = template.clone();
          e[f.x()].copy_from_slice(&crate::bigmodel::le24(&num_bigint::BigUint::from(k as u64 + 1)));
          // thresholds n, n-1 and a few below: reached by the copies
          let t = [n, n - 1, 32.min(n)][(size as usize / 3) % 3].max(1) as u32;
          e[..4].copy_from_slice(&t.to_le_bytes());
          enc.push(e);
        }
        st.class(&format!("many-copies-of-one-share:{}{}", if n >= 128 { ">=128" } else if n >= 63 { "63-65" } else { "31-33" }, if f.y_count() == 0 { ",no-y" } else { "" }));
      }
    }
  }
  if let Some(t) = c.force_threshold {
    for e in enc.iter_mut() {
      if e.len() >= 4 {
        e[..4].copy_from_slice(&t.to_le_bytes());
      }
    }
  }
  if let Some((t, n)) = c.honest_group {
    let mut hs = Vec::new();
    for _ in 0..n {
      hs.push(
        adss::Commune::new(t, b"message".to_vec(), b"coins".to_vec(), None)
          .share()
          .map_err(|e| format!("share: {e}"))?
          .to_bytes(),
      );
    }
    if c.honest_first {
      hs.extend(enc);
      enc = hs;
    } else {
      enc.extend(hs);
    }
  }
  // a sibling of one share (same tag, other point) whose C or D chunk has another length
  if let (Some((which, field, newlen, first)), false) = (c.resized, enc.is_empty()) {
    let t = enc[idx(which, enc.len())].clone();
    if let Some(f) = layout::share_fields(&t) {
      if f.s.len() >= 24 {
        let mut s = t[f.s.clone()].to_vec();
        s[..24].copy_from_slice(&crate::bigmodel::le24(&num_bigint::BigUint::from(0xABCDu32)));
        let resize = |b: &[u8]| -> Vec<u8> {
          let mut v = b.to_vec();
          v.resize(newlen as usize, 0x5A);
          v
        };
        let (cc, dd) = if field == 0 { (resize(&t[f.c.clone()]), t[f.d.clone()].to_vec()) } else { (t[f.c.clone()].to_vec(), resize(&t[f.d.clone()])) };
        let thr = u32::from_le_bytes([t[0], t[1], t[2], t[3]]);
        let sib = layout::encode_share(thr, &s, &cc, &dd, &t[f.j.clone()]);
        if first {
          enc.insert(0, sib);
        } else {
          enc.push(sib);
        }
        st.class(if field == 0 { "sibling-share-with-resized-C" } else { "sibling-share-with-resized-D" });
      }
    }
  }
  let desc = || format!("shares {:?}", enc.iter().map(hex::encode).collect::<Vec<_>>());
  let adss_shares: Vec<adss::Share> = enc.iter().filter_map(|e| adss::Share::from_bytes(e)).collect();
  let star_shares: Vec<sta_rs::Share> = enc.iter().filter_map(|e| sta_rs::Share::from_bytes(e)).collect();
  st.class(&format!("decodable={}", adss_shares.len().min(6)));
  let r1 = guard("adss::recover", desc, || adss::recover(&adss_shares).map(|c| c.get_message()).map_err(|e| e.to_string()))?;
  let r2 = guard("sta_rs::share_recover", desc, || sta_rs::share_recover(&star_shares).map(|c| c.get_message()).map_err(|e| e.to_string()))?;
  st.evals(2);
  if r1.is_ok() != r2.is_ok() {
    return Err(format!("adss::recover and share_recover disagree on the same shares: {:?} vs {:?}", r1, r2));
  }
  st.class(if r1.is_ok() { "recover=ok" } else { "recover=err" });
  // the inner Shamir shares under every threshold of interest
  let inner: Vec<star_sharks::Share> = enc
    .iter()
    .filter_map(|e| layout::share_fields(e).and_then(|f| star_sharks::Share::try_from(&e[f.s]).ok()))
    .collect();
  for t in [0u32, 1, 2, 3, 32, 33, inner.len() as u32, (inner.len() as u32).saturating_sub(1), u32::MAX] {
    guard("Sharks::recover", || format!("t={t} {}", desc()), || star_sharks::Sharks(t).recover(&inner).is_ok())?;
    st.evals(1);
  }
  // empty collections
  guard("adss::recover(empty)", String::new, || adss::recover(&Vec::<adss::Share>::new()).is_ok())?;
  guard("share_recover(empty)", String::new, || sta_rs::share_recover(&[]).is_ok())?;
  let yless = enc.iter().any(|e| layout::share_fields(e).map(|f| f.y_count() == 0).unwrap_or(false));
  let mixed = {
    let ks: std::collections::BTreeSet<usize> = enc.iter().filter_map(|e| layout::share_fields(e).map(|f| f.y_count())).collect();
    ks.len() > 1
  };
  if yless {
    st.class("has-share-without-y");
  }
  if mixed {
    st.class("mixed-y-lengths");
  }
  if !c.same_x.is_empty() {
    st.class("duplicated-x");
  }
  st.nontrivial(&enc);
  if st.want_sample() {
    st.sample(json!({"shares": enc.iter().map(|e| hx(e)).collect::<Vec<_>>(), "recover": format!("{:?}", r1.as_ref().map(|m| hx(m)))}));
  }
  Ok(())
}

// ---------------------------------------------------------------------------
// PPOPRF decoders on bytes / text

pub fn ppoprf_bytes(s: &[u8], st: &mut Stats) -> Result<(), String> {
  let pk = guard("ServerPublicKey::load_from_bincode", || hex::encode(s), || ServerPublicKey::load_from_bincode(s).ok())?;
  let pr = guard("ProofDLEQ::load_from_bincode", || hex::encode(s), || ProofDLEQ::load_from_bincode(s).ok())?;
  st.evals(2);
  // the public key type is also a plain serde type: the same bytes through bincode directly
  // (no size limit / no extra validation), and whatever decodes is used
  let pk_direct = guard("bincode::deserialize::<ServerPublicKey>", || hex::encode(s), || {
    if s.len() > 20000 {
      None
    } else {
      bincode::deserialize::<ServerPublicKey>(s).ok()
    }
  })?;
  for pkx in pk_direct.iter() {
    let input = point_from(&valid_point(1).compress().to_bytes());
    for md in [0u8, 1, 7, 255] {
      let ev = Evaluation {
        output: point_from(&valid_point(2).compress().to_bytes()),
        proof: Some(proof_from_scalars(&curve25519_dalek::scalar::Scalar::ONE, &curve25519_dalek::scalar::Scalar::ONE)),
      };
      guard("Client::verify (key decoded with serde directly)", || format!("pk {} md {md}", hex::encode(s)), || Client::verify(pkx, &input, &ev, md))?;
      st.evals(1);
    }
    if let Ok(j) = serde_json::to_string(pkx) {
      if let Ok(pkj) = serde_json::from_str::<ServerPublicKey>(&j) {
        guard("Client::verify (key through JSON)", || j.clone(), || Client::verify(&pkj, &input, &Evaluation { output: input.clone(), proof: None }, 0))?;
      }
    }
    st.class("pk-decoded-with-serde-directly");
  }
  if let Some(pk) = pk {
    st.class("pk-decoded");
    // a decoded key must be usable without crashing, for every tag it may or may not hold
    let input = point_from(&valid_point(1).compress().to_bytes());
    for md in [0u8, 1, 7, 255] {
      let ev = Evaluation {
        output: point_from(&valid_point(2).compress().to_bytes()),
        proof: Some(proof_from_scalars(&curve25519_dalek::scalar::Scalar::ONE, &curve25519_dalek::scalar::Scalar::ONE)),
      };
      let ok = guard("Client::verify", || format!("pk {} md {md}", hex::encode(s)), || Client::verify(&pk, &input, &ev, md))?;
      if ok {
        return Err(format!("Client::verify accepted a made-up evaluation under decoded key {}", hex::encode(s)));
      }
      st.evals(1);
    }
  } else {
    st.nontrivial(&("pk", s));
  }
  if pr.is_none() {
    st.nontrivial(&("proof", s));
  }
  if let Ok(text) = std::str::from_utf8(s) {
    json_text(text, st)?;
  }
  Ok(())
}

pub fn json_text(text: &str, st: &mut Stats) -> Result<(), String> {
  let p = guard("JSON -> Point", || text.to_string(), || serde_json::from_str::<Point>(text).ok())?;
  let e = guard("JSON -> Evaluation", || text.to_string(), || serde_json::from_str::<Evaluation>(text).ok())?;
  st.evals(2);
  if p.is_none() {
    st.nontrivial(&("json-point", text));
  }
  if e.is_none() {
    st.nontrivial(&("json-eval", text));
  }
  // whatever decodes goes on to the consumers
  if let Some(ev) = e {
    st.class("json-evaluation-decoded");
    let server = Server::new(vec![3]).map_err(|e| e.to_string())?;
    let input = point_from(&valid_point(5).compress().to_bytes());
    let ok = guard("Client::verify", || text.to_string(), || Client::verify(&server.get_public_key(), &input, &ev, 3))?;
    if ok {
      return Err(format!("Client::verify accepted an evaluation decoded from arbitrary text under an unrelated key: {text}"));
    }
  }
  if let Some(p) = p {
    st.class("json-point-decoded");
    let server = Server::new(vec![3]).map_err(|e| e.to_string())?;
    guard("Server::eval", || text.to_string(), || server.eval(&p, 3, true).is_ok())?;
  }
  Ok(())
}

#[derive(Clone, Debug, Serialize, Deserialize)]
pub enum PkMut {
  None,
  Prefix(u16),
  Count(u64),
  Point { which: u16, spec: PointSpec },
  Tag { which: u16, val: u8 },
  Append(Hx),
}

#[derive(Clone, Debug, Serialize, Deserialize)]
pub struct PpBytesCase {
  pub mds: Vec<u8>,
  pub muts: Vec<PkMut>,
  pub proof_bytes: Hx,
}

fn pk_mut() -> BoxedStrategy<PkMut> {
  prop_oneof![
    1 => Just(PkMut::None),
    3 => any::<u16>().prop_map(PkMut::Prefix),
    3 => prop_oneof![Just(0u64), Just(1u64), Just(255), Just(256), Just(257), Just(496), Just(497), Just(u32::MAX as u64), Just(u64::MAX), Just(1u64 << 63), any::<u64>()].prop_map(PkMut::Count),
    4 => (any::<u16>(), point_spec()).prop_map(|(which, spec)| PkMut::Point { which, spec }),
    2 => (any::<u16>(), any::<u8>()).prop_map(|(which, val)| PkMut::Tag { which, val }),
    1 => small_bytes(40).prop_map(PkMut::Append),
  ]
  .boxed()
}

fn ppbytes_strat(_t: Tier) -> BoxedStrategy<PpBytesCase> {
  (
    tag_set(12),
    vec(pk_mut(), 0..3),
    prop_oneof![uniform_bytes(64, 64), uniform_bytes(0, 70), Just(Hx(vec![0xFF; 64])), Just(Hx(vec![0; 64]))],
  )
    .prop_map(|(mds, muts, proof_bytes)| PpBytesCase { mds, muts, proof_bytes })
    .boxed()
}

pub fn mutate_pk(bytes: &[u8], muts: &[PkMut]) -> Vec<u8> {
  let mut b = bytes.to_vec();
  for m in muts {
    match m {
      PkMut::None => {}
      PkMut::Prefix(k) => {
        let l = idx(*k, b.len() + 1);
        b.truncate(l);
      }
      PkMut::Count(c) => {
        if b.len() >= 40 {
          b[32..40].copy_from_slice(&c.to_le_bytes());
        }
      }
      PkMut::Point { which, spec } => {
        if let Ok((m, _)) = PkModel::decode(&b) {
          let slots = 1 + m.entries.len();
          let i = idx(*which, slots);
          let off = if i == 0 { 0 } else { 40 + 33 * (i - 1) + 1 };
          let mut honest = [0u8; 32];
          honest.copy_from_slice(&b[off..off + 32]);
          b[off..off + 32].copy_from_slice(&spec.apply(honest));
        }
      }
      PkMut::Tag { which, val } => {
        if let Ok((m, _)) = PkModel::decode(&b) {
          if !m.entries.is_empty() {
            let i = idx(*which, m.entries.len());
            b[40 + 33 * i] = *val;
          }
        }
      }
      PkMut::Append(x) => b.extend_from_slice(x),
    }
  }
  b
}

fn ppbytes_oracle(c: &PpBytesCase, st: &mut Stats) -> Result<(), String> {
  let server = Server::new(c.mds.clone()).map_err(|e| format!("Server::new: {e}"))?;
  let honest = server.get_public_key().serialize_to_bincode().map_err(|e| e.to_string())?;
  let b = mutate_pk(&honest, &c.muts);
  ppoprf_bytes(&b, st)?;
  ppoprf_bytes(&c.proof_bytes, st)?;
  // the decoded (possibly poisoned) key is used for a real evaluation of this server
  if let Ok(Some(pk)) = no_panic(|| ServerPublicKey::load_from_bincode(&b).ok()) {
    let (blinded, _r) = Client::blind(b"input");
    for md in c.mds.iter().take(3) {
      let ev = server.eval(&blinded, *md, true).map_err(|e| e.to_string())?;
      guard("Client::verify", || format!("pk {} md {md}", hex::encode(&b)), || Client::verify(&pk, &blinded, &ev, *md))?;
      st.evals(1);
    }
    st.class("mutated-pk-decoded");
  } else {
    st.class("mutated-pk-rejected");
  }
  // an exported key state whose embedded public key was damaged on the way: importing it and
  // asking for a (verifiable) evaluation must fail cleanly
  if let Ok(state_bytes) = bincode::serialize(&server.get_private_key()) {
    // layout: 32-byte scalar, then the public key in the form handled above
    if state_bytes.len() >= 32 + honest.len() && state_bytes[32..32 + honest.len()] == honest[..] && b.len() == honest.len() {
      let mut poisoned = state_bytes.clone();
      poisoned[32..32 + honest.len()].copy_from_slice(&b);
      if let Ok(state) = bincode::deserialize::<ppoprf::ppoprf::ServerKeyState>(&poisoned) {
        let mut s2 = Server::new(c.mds.clone()).map_err(|e| e.to_string())?;
        s2.set_private_key(state);
        let (blinded, _) = Client::blind(b"after-import");
        for md in c.mds.iter().take(3) {
          for verifiable in [true, false] {
            guard("Server::eval after importing a key state with a damaged public key", || format!("pk {} md {md}", hex::encode(&b)), || s2.eval(&blinded, *md, verifiable).is_ok())?;
            st.evals(1);
          }
        }
        st.class("key-state-with-mutated-pk-imported");
      }
    }
  }
  if st.want_sample() {
    st.sample(json!({"pk_bytes": hx(&b), "mutations": format!("{:?}", c.muts)}));
  }
  Ok(())
}

// ---------------------------------------------------------------------------
// JSON texts

#[derive(Clone, Debug, Serialize, Deserialize)]
pub enum JsonMut {
  AllPrefixes,
  ReplaceOutput(String),
  ProofNull,
  DropProof,
  ScalarNumber { pos: u16, val: i64 },
  CharFault { pos: u16, ch: char },
  Raw(String),
}

#[derive(Clone, Debug, Serialize, Deserialize)]
pub struct JsonCase {
  pub verifiable: bool,
  pub m: JsonMut,
}

fn b64ish() -> BoxedStrategy<String> {
  prop_oneof![
    // valid base64 of 0..40 bytes (wrong length unless 32)
    small_bytes(40).prop_map(|b| BASE64_STANDARD.encode(&b.0)),
    Just(BASE64_STANDARD.encode([0xFFu8; 32])),
    Just(BASE64_STANDARD.encode([0u8; 32])),
    // characters outside the alphabet, padding in odd places, escapes
    vec(prop_oneof![Just('A'), Just('='), Just('-'), Just('_'), Just(' '), Just('\\'), Just('"'), Just('é'), Just('\n'), Just('/'), Just('+'), Just('z')], 0..50)
      .prop_map(|v| v.into_iter().collect::<String>()),
  ]
  .boxed()
}

fn json_strat(_t: Tier) -> BoxedStrategy<JsonCase> {
  let m = prop_oneof![
    2 => Just(JsonMut::AllPrefixes),
    4 => b64ish().prop_map(JsonMut::ReplaceOutput),
    1 => Just(JsonMut::ProofNull),
    1 => Just(JsonMut::DropProof),
    3 => (any::<u16>(), prop_oneof![Just(-1i64), Just(256), Just(255), Just(0), Just(1 << 40), Just(16)]).prop_map(|(pos, val)| JsonMut::ScalarNumber { pos, val }),
    3 => (any::<u16>(), prop_oneof![Just('"'), Just('{'), Just('}'), Just('['), Just(','), Just('\\'), Just('0'), Just('n'), Just(' ')]).prop_map(|(pos, ch)| JsonMut::CharFault { pos, ch }),
    2 => prop_oneof![
      Just("".to_string()), Just("null".to_string()), Just("{}".to_string()), Just("[]".to_string()), Just("\"\"".to_string()),
      Just("{\"output\":null,\"proof\":null}".to_string()), Just("{\"output\":\"\",\"proof\":{}}".to_string()),
      Just("{\"output\":5}".to_string()), Just("[1,2,3]".to_string()),
      Just(format!("[{}]", vec!["255"; 32].join(","))), Just(format!("[{}]", vec!["0"; 31].join(","))), Just(format!("[{}]", vec!["7"; 33].join(","))),
      Just(format!("{{\"output\":\"{}\",\"proof\":{{\"c\":[{}],\"s\":[{}]}}}}", BASE64_STANDARD.encode([1u8;32]), vec!["255"; 32].join(","), vec!["0"; 32].join(","))),
    ].prop_map(JsonMut::Raw),
  ];
  (any::<bool>(), m).prop_map(|(verifiable, m)| JsonCase { verifiable, m }).boxed()
}

fn json_oracle(c: &JsonCase, st: &mut Stats) -> Result<(), String> {
  let server = Server::new(vec![1, 2]).map_err(|e| e.to_string())?;
  let (blinded, _) = Client::blind(b"json");
  let ev = server.eval(&blinded, 1, c.verifiable).map_err(|e| e.to_string())?;
  let text = serde_json::to_string(&ev).map_err(|e| format!("Evaluation does not serialise: {e}"))?;
  let ptext = serde_json::to_string(&blinded).map_err(|e| e.to_string())?;
  match &c.m {
    JsonMut::AllPrefixes => {
      for t in [&text, &ptext] {
        for k in 0..=t.len() {
          if t.is_char_boundary(k) {
            json_text(&t[..k], st)?;
          }
        }
      }
    }
    JsonMut::ReplaceOutput(s) => {
      let v = json!({"output": s, "proof": serde_json::from_str::<serde_json::Value>(&text).ok().and_then(|v| v.get("proof").cloned())});
      json_text(&v.to_string(), st)?;
      // un-escaped variant as it could arrive on the wire
      json_text(&format!("{{\"output\":\"{s}\",\"proof\":null}}"), st)?;
    }
    JsonMut::ProofNull => {
      let mut v: serde_json::Value = serde_json::from_str(&text).map_err(|e| e.to_string())?;
      v["proof"] = serde_json::Value::Null;
      json_text(&v.to_string(), st)?;
    }
    JsonMut::DropProof => {
      let mut v: serde_json::Value = serde_json::from_str(&text).map_err(|e| e.to_string())?;
      v.as_object_mut().map(|o| o.remove("proof"));
      json_text(&v.to_string(), st)?;
    }
    JsonMut::ScalarNumber { pos, val } => {
      let mut v: serde_json::Value = serde_json::from_str(&text).map_err(|e| e.to_string())?;
      if let Some(p) = v.get_mut("proof").and_then(|p| p.as_object_mut()) {
        let key = if pos & 1 == 0 { "c" } else { "s" };
        if let Some(arr) = p.get_mut(key).and_then(|a| a.as_array_mut()) {
          if !arr.is_empty() {
            let i = idx(*pos, arr.len());
            arr[i] = json!(val);
          }
        }
      }
      json_text(&v.to_string(), st)?;
      let mut pv: serde_json::Value = serde_json::from_str(&ptext).map_err(|e| e.to_string())?;
      if let Some(arr) = pv.as_array_mut() {
        if !arr.is_empty() {
          let i = idx(*pos, arr.len());
          arr[i] = json!(val);
        }
      }
      json_text(&pv.to_string(), st)?;
    }
    JsonMut::CharFault { pos, ch } => {
      for t in [&text, &ptext] {
        let chars: Vec<char> = t.chars().collect();
        let i = idx(*pos, chars.len());
        let mut c2 = chars.clone();
        c2[i] = *ch;
        json_text(&c2.into_iter().collect::<String>(), st)?;
      }
    }
    JsonMut::Raw(s) => json_text(s, st)?,
  }
  if st.want_sample() {
    st.sample(json!({"honest_evaluation_json": text, "mutation": format!("{:?}", c.m)}));
  }
  Ok(())
}

// ---------------------------------------------------------------------------
// Server::eval and Client::verify on arbitrary values

#[derive(Clone, Debug, Serialize, Deserialize)]
pub struct EvalCase {
  pub mds: Vec<u8>,
  pub punctured: Vec<u16>,
  pub point: PointSpec,
  pub md: u8,
  pub md_registered: Option<u16>,
  pub verifiable: bool,
}

fn eval_strat(_t: Tier) -> BoxedStrategy<EvalCase> {
  (tag_set(8), vec(any::<u16>(), 0..3), point_spec(), any::<u8>(), proptest::option::of(any::<u16>()), any::<bool>())
    .prop_map(|(mds, punctured, point, md, md_registered, verifiable)| EvalCase {
      mds,
      punctured,
      point,
      md,
      md_registered,
      verifiable,
    })
    .boxed()
}

fn eval_oracle(c: &EvalCase, st: &mut Stats) -> Result<(), String> {
  let mut server = Server::new(c.mds.clone()).map_err(|e| e.to_string())?;
  let mut punct = std::collections::BTreeSet::new();
  for p in &c.punctured {
    let t = pick_tag(&c.mds, *p);
    if punct.insert(t) {
      server.puncture(t).map_err(|e| format!("first puncture of registered tag {t} failed: {e}"))?;
    }
  }
  let md = match c.md_registered {
    Some(s) => pick_tag(&c.mds, s),
    None => c.md,
  };
  let (honest, _) = Client::blind(b"eval-input");
  let pb = c.point.apply(*honest.as_bytes());
  let p = point_from(&pb);
  let decodable = decompress(&pb).is_some();
  let r = guard(
    "Server::eval",
    || format!("point {} tag {md} verifiable {}", hex::encode(pb), c.verifiable),
    || server.eval(&p, md, c.verifiable).map(|e| *e.output.as_bytes()).map_err(|e| e.to_string()),
  )?;
  st.evals(1);
  let registered = c.mds.contains(&md);
  let expect_ok = decodable && registered && !punct.contains(&md);
  if r.is_ok() != expect_ok {
    return Err(format!(
      "Server::eval returned {:?} for point {} (decodable {decodable}) tag {md} (registered {registered}, punctured {})",
      r.map(hex::encode),
      hex::encode(pb),
      punct.contains(&md)
    ));
  }
  st.class(if decodable { "point=decodable" } else { "point=undecodable" });
  st.class(if registered { "tag=registered" } else { "tag=unregistered" });
  if !expect_ok {
    st.nontrivial(&(pb, md, registered, punct.contains(&md)));
  }
  Ok(())
}

#[derive(Clone, Debug, Serialize, Deserialize)]
pub struct VerifyCase {
  pub mds: Vec<u8>,
  pub md_sel: u16,
  pub pk_muts: Vec<PkMut>,
  pub input: PointSpec,
  pub output: PointSpec,
  /// 0 honest, 1 missing, 2 arbitrary canonical scalars
  pub proof: u8,
  pub scalars: Hx,
  /// verify under this tag instead of the evaluated one
  pub other_md: Option<u8>,
}

fn verify_strat(_t: Tier) -> BoxedStrategy<VerifyCase> {
  (
    tag_set(6),
    any::<u16>(),
    vec(prop_oneof![3 => (any::<u16>(), point_spec()).prop_map(|(which, spec)| PkMut::Point { which, spec }), 1 => (any::<u16>(), any::<u8>()).prop_map(|(which, val)| PkMut::Tag { which, val })], 0..2),
    point_spec(),
    point_spec(),
    prop_oneof![3 => Just(0u8), 2 => Just(1u8), 2 => Just(2u8)],
    uniform_bytes(64, 64),
    proptest::option::weighted(0.2, any::<u8>()),
  )
    .prop_map(|(mds, md_sel, pk_muts, input, output, proof, scalars, other_md)| VerifyCase {
      mds,
      md_sel,
      pk_muts,
      input,
      output,
      proof,
      scalars,
      other_md,
    })
    .boxed()
}

fn verify_oracle(c: &VerifyCase, st: &mut Stats) -> Result<(), String> {
  let server = Server::new(c.mds.clone()).map_err(|e| e.to_string())?;
  let md = pick_tag(&c.mds, c.md_sel);
  let (blinded, _) = Client::blind(b"verify-input");
  let ev = server.eval(&blinded, md, true).map_err(|e| e.to_string())?;
  let honest_pk = server.get_public_key().serialize_to_bincode().map_err(|e| e.to_string())?;
  let pkb = mutate_pk(&honest_pk, &c.pk_muts);
  let pk = match ServerPublicKey::load_from_bincode(&pkb) {
    Ok(pk) => pk,
    Err(_) => return Ok(()),
  };
  let inb = c.input.apply(*blinded.as_bytes());
  let outb = c.output.apply(*ev.output.as_bytes());
  let proof = match c.proof {
    0 => ev.proof,
    1 => None,
    _ => {
      let mut cb = [0u8; 32];
      let mut sb = [0u8; 32];
      cb.copy_from_slice(&c.scalars[..32]);
      sb.copy_from_slice(&c.scalars[32..64]);
      cb[31] &= 0x0F;
      sb[31] &= 0x0F;
      let mut v = cb.to_vec();
      v.extend_from_slice(&sb);
      ProofDLEQ::load_from_bincode(&v).ok()
    }
  };
  let has_proof = proof.is_some();
  let ev2 = Evaluation {
    output: point_from(&outb),
    proof,
  };
  let vmd = c.other_md.unwrap_or(md);
  let desc = || {
    format!(
      "pk {} input {} output {} proof_present {has_proof} tag {vmd}",
      hex::encode(&pkb),
      hex::encode(inb),
      hex::encode(outb)
    )
  };
  let ok = guard("Client::verify", desc, || Client::verify(&pk, &point_from(&inb), &ev2, vmd))?;
  st.evals(1);
  let all_honest = pkb == honest_pk && inb == *blinded.as_bytes() && outb == *ev.output.as_bytes() && c.proof == 0 && vmd == md;
  if all_honest && !ok {
    return Err(format!("honest evaluation rejected: {}", desc()));
  }
  let any_undecodable = decompress(&inb).is_none()
    || decompress(&outb).is_none()
    || !has_proof
    || PkModel::decode(&pkb)
      .map(|(m, _)| decompress(&m.base).is_none() || m.map().get(&vmd).map(|e| decompress(e).is_none()).unwrap_or(true))
      .unwrap_or(true);
  if any_undecodable && ok {
    return Err(format!("verification succeeded although a component is missing or undecodable: {}", desc()));
  }
  st.class(if all_honest {
    "all-honest"
  } else if any_undecodable {
    "malformed-component"
  } else {
    "well-formed-but-wrong"
  });
  if !has_proof {
    st.class("proof-missing");
  }
  if any_undecodable {
    st.nontrivial(&(pkb, inb, outb, has_proof, vmd));
  }
  Ok(())
}

// ---------------------------------------------------------------------------
// WASM grouping call on arbitrary text

#[derive(Clone, Debug, Serialize, Deserialize)]
pub enum Line {
  Honest,
  Model(Base),
  B64OfBytes(Hx),
  Text(String),
}

#[derive(Clone, Debug, Serialize, Deserialize)]
pub struct WasmCase {
  pub t: u32,
  pub lines: Vec<Line>,
  /// 0 = "\n", 1 = "\r\n", 2 = "\n" plus a trailing newline
  pub sep: u8,
  pub epoch: String,
  /// an authentic ADSS sharing made by another party with a message and coins of its own choosing
  /// (message, coins, number of shares put in front of the other lines)
  #[serde(default)]
  pub foreign: Option<(Hx, Hx, u8)>,
}

fn text() -> BoxedStrategy<String> {
  vec(
    prop_oneof![Just('A'), Just('b'), Just('9'), Just('+'), Just('/'), Just('='), Just(' '), Just('\r'), Just('-'), Just('_'), Just('é'), Just('\u{1F600}'), Just('\0'), Just('*')],
    0..24,
  )
  .prop_map(|v| v.into_iter().collect::<String>())
  .boxed()
}

fn wasm_strat(_t: Tier) -> BoxedStrategy<WasmCase> {
  (
    1u32..5,
    vec(
      prop_oneof![
        4 => Just(Line::Honest),
        2 => model_share().prop_map(Line::Model),
        3 => small_bytes(6).prop_map(Line::B64OfBytes),
        1 => bytes(200).prop_map(Line::B64OfBytes),
        3 => text().prop_map(Line::Text),
      ],
      0..7,
    ),
    0u8..3,
    text(),
    proptest::option::weighted(
      0.35,
      (
        prop_oneof![4 => small_bytes(40), 1 => Just(Hx(vec![])), 1 => Just(Hx(vec![7; 31])), 1 => Just(Hx(vec![7; 32])), 1 => Just(Hx(vec![7; 33])), 1 => bytes(300)],
        prop_oneof![3 => small_bytes(40), 1 => Just(Hx(vec![])), 1 => Just(Hx(vec![9; 32]))],
        0u8..7,
      ),
    ),
  )
    .prop_map(|(t, lines, sep, epoch, foreign)| WasmCase { t, lines, sep, epoch, foreign })
    .boxed()
}

fn wasm_oracle(c: &WasmCase, st: &mut Stats) -> Result<(), String> {
  let mut lines: Vec<String> = Vec::new();
  let mut malformed = false;
  if let Some((msg, coins, count)) = &c.foreign {
    for _ in 0..*count {
      let sh = adss::Commune::new(c.t, msg.0.clone(), coins.0.clone(), None).share().map_err(|e| format!("Commune::share: {e}"))?;
      lines.push(BASE64_STANDARD.encode(sh.to_bytes()));
    }
    st.class(&format!("authentic-sharing-of-a-{}-message:{}", match msg.len() { 0 => "0-byte", 1..=31 => "short", 32 => "32-byte", _ => "long" }, if *count as u32 >= c.t { "reaches-threshold" } else { "below-threshold" }));
    if msg.len() != 32 {
      malformed = true;
    }
  }
  for l in &c.lines {
    lines.push(match l {
      Line::Honest => {
        let out = star_wasm::create_share(b"measurement", c.t, &c.epoch);
        let v: serde_json::Value = serde_json::from_str(&out).map_err(|e| format!("create_share output is not JSON: {e}: {out}"))?;
        v["share"].as_str().unwrap_or("").to_string()
      }
      Line::Model(b) => BASE64_STANDARD.encode(b.build()?),
      Line::B64OfBytes(h) => {
        if sta_rs::Share::from_bytes(h).is_none() {
          malformed = true;
        }
        BASE64_STANDARD.encode(&h.0)
      }
      Line::Text(t) => {
        malformed = true;
        t.clone()
      }
    });
  }
  let sep = if c.sep == 1 { "\r\n" } else { "\n" };
  let mut s = lines.join(sep);
  if c.sep == 2 {
    s.push('\n');
  }
  if lines.is_empty() || c.sep != 0 {
    malformed = true;
  }
  let r = guard("star_wasm::group_shares", || format!("{:?} epoch {:?}", s, c.epoch), || star_wasm::group_shares(&s, &c.epoch))?;
  st.evals(1);
  st.class(if r.is_some() { "result=some" } else { "result=none" });
  if malformed {
    st.class("malformed-input");
    st.nontrivial(&(&s, &c.epoch));
  }
  if st.want_sample() {
    st.sample(json!({"serialized_shares": truncate(&s, 300), "epoch": c.epoch, "result": r}));
  }
  Ok(())
}

pub fn property() -> Property {
  Property {
    id: "C09",
    level: "fault_enumeration",
    rule: "every consumer of foreign data runs under catch_unwind: the four byte decoders and helpers on the wire-string families of C08 (every prefix, every length field x boundary values, every offset x 12 fault kinds, splices, out-of-range elements, raw strings); adss::recover / share_recover / Sharks::recover on decodable but degenerate shares (no y, mixed y-lengths, duplicated x, thresholds 0 / 1 / 2^31 / 2^32-1, empty collections, honest group mixed in); public-key and proof bytes (truncations, count field boundary values, undecodable points in every slot, arbitrary 64-byte proofs) and JSON texts (every prefix, broken base64, out-of-range numbers) for the PPOPRF decoders, with every successfully decoded value passed on to Client::verify / Server::eval; Server::eval on any 32 bytes x any tag; Client::verify on (public key, input, output, proof present/absent/arbitrary, tag) with undecodable components; star_wasm::group_shares on arbitrary text and on authentic ADSS sharings of messages no STAR client would share (0..300 bytes). Oracle: no unwind, failure reported through None/Err/false. Non-trivial: an input its decoder does not accept as well-formed, or a degenerate value; distinct by (entry point, input).",
    assumptions: vec![
      "Point::from(&[u8]) and Client::unblind document a length / validity expectation and are not in the statement's list; they are not asserted on",
      "aborts (as opposed to unwinds) are detected by run.sh from the exit status",
    ],
    subs: vec![
      prop_sub("wire_decoders", 900, 30000, wire_case, wire_oracle),
      prop_sub("raw_strings", 30000, 1_000_000, raw_strat, raw_oracle),
      prop_sub("recover_degenerate", 20000, 600_000, rec_strat, rec_oracle),
      prop_sub("ppoprf_bytes", 3000, 100_000, ppbytes_strat, ppbytes_oracle),
      prop_sub("ppoprf_json", 1500, 40000, json_strat, json_oracle),
      prop_sub("server_eval", 4000, 100_000, eval_strat, eval_oracle),
      prop_sub("client_verify", 4000, 100_000, verify_strat, verify_oracle),
      prop_sub("wasm_group_shares", 6000, 200_000, wasm_strat, wasm_oracle),
      crate::fuzzentry::fuzz_sub("fuzzbytes_decode", "decode", "C09", 20000, 400000),
      crate::fuzzentry::artefact_sub("artefact_decode", "decode", "C09"),
      crate::fuzzentry::fuzz_sub("fuzzbytes_recover", "recover", "C09", 10000, 200000),
      crate::fuzzentry::artefact_sub("artefact_recover", "recover", "C09"),
      crate::fuzzentry::fuzz_sub("fuzzbytes_ppoprf", "ppoprf", "C09", 4000, 80000),
      crate::fuzzentry::artefact_sub("artefact_ppoprf", "ppoprf", "C09"),
      crate::fuzzentry::fuzz_sub("fuzzbytes_wasm", "wasm", "C09", 10000, 200000),
      crate::fuzzentry::artefact_sub("artefact_wasm", "wasm", "C09"),
    ],
  }
}
