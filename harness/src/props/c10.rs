//! C10 Puncturing removes exactly the punctured inputs; all other PRF values persist.

use crate::engine::*;
use crate::ggmx::*;
use ppoprf::ggm::GGM;
use ppoprf::PPRF;
use proptest::collection::vec;
use proptest::prelude::*;
use serde::{Deserialize, Serialize};
use serde_json::json;
use std::collections::BTreeSet;

pub const W10: Which = Which { c10: true, c11: false };

#[derive(Clone, Debug, Serialize, Deserialize)]
pub struct LatticeItem {
  pub leaves: usize,
  pub variant: u64,
  pub first: usize,
}

pub fn lattice_count(tier: Tier) -> u64 {
  // quick: 6 sub-domains of 8 leaves; thorough: additionally 4 of 16 leaves and 12 more of 8
  match tier {
    Tier::Quick => 6 * 8,
    Tier::Thorough => 18 * 8 + 4 * 16,
  }
}
pub fn lattice_item(tier: Tier, i: u64) -> LatticeItem {
  let small = match tier {
    Tier::Quick => 6 * 8,
    Tier::Thorough => 18 * 8,
  };
  if i < small {
    LatticeItem { leaves: 8, variant: i / 8, first: (i % 8) as usize }
  } else {
    let j = i - small;
    LatticeItem { leaves: 16, variant: [0, 1, 2, 5][(j / 16) as usize % 4], first: (j % 16) as usize }
  }
}

pub fn lattice_oracle(which: Which) -> impl Fn(&LatticeItem, &mut Stats) -> Result<(), String> + Clone {
  move |c: &LatticeItem, st: &mut Stats| {
    let (name, d) = subdomains(c.leaves, c.variant);
    let (states, transitions) = explore_lattice(&d, c.first, which, st)?;
    st.model(states, transitions, 1);
    st.class_n(&format!("states:{}-leaf", c.leaves), states);
    st.class_n(&format!("transitions:{}-leaf", c.leaves), transitions);
    st.class(&format!("subdomain={name}"));
    if st.want_sample() {
      st.sample(json!({"subdomain": name, "leaves": d, "first_punctured": d[c.first], "states": states, "transitions": transitions}));
    }
    Ok(())
  }
}

#[derive(Clone, Debug, Serialize, Deserialize)]
pub struct PairItem {
  pub a: u8,
  pub b: u8,
}

pub fn pair_oracle(which: Which) -> impl Fn(&PairItem, &mut Stats) -> Result<(), String> + Clone {
  move |c: &PairItem, st: &mut Stats| {
    // one work item = one first input `a` against every second input b
    let g = GGM::setup();
    let orig = original(&g)?;
    let all: Vec<u8> = (0..=255u8).collect();
    let closure = if which.c11 { Prg::for_fresh_key(&g, &orig) } else { None };
    let mut ta = Tracked { g, punctured: BTreeSet::new(), closure };
    step(&mut ta, c.a, &orig, which, &all, st)?;
    if which.c11 {
      check_derivability(&ta, &orig, st)?;
    }
    for b in 0..=255u8 {
      if b == c.a {
        continue;
      }
      let mut t = ta.clone();
      // full sweep for a rotating sixteenth of the pairs, neighbourhoods otherwise
      let full = (c.a as u32 * 31 + b as u32) % 16 == 0;
      let scope: Vec<u8> = if full {
        all.clone()
      } else {
        let mut s = neighbourhood(c.a, b);
        s.extend(neighbourhood(b, c.a));
        s.extend_from_slice(&SPREAD);
        s.sort();
        s.dedup();
        s
      };
      step(&mut t, b, &orig, which, &scope, st)?;
      if which.c11 && (c.a as u32 * 31 + b as u32) % 64 == 0 {
        check_derivability(&t, &orig, st)?;
      }
      st.nontrivial(&(c.a, b));
      st.model(1, 1, 1);
      if full {
        st.class("pair-with-full-sweep");
      }
    }
    Ok(())
  }
}

#[derive(Clone, Debug, Serialize, Deserialize)]
pub enum Op {
  Puncture(u8),
  /// puncture an input related to the previous one: previous with bit `i` flipped
  PunctureSibling(u8),
  /// puncture the previous input with the bits selected by the mask replaced
  PunctureNear(u8, u8),
  Eval(u8),
  EvalBadLen(Vec<u8>),
  PunctureBadLen(Vec<u8>),
  /// puncture again the k-th input punctured so far (mapped)
  RePuncture(u16),
  /// puncture every remaining input of the aligned block of 2^k inputs around the previous one, keeping one for last
  FinishSubtree(u8, bool),
}

#[derive(Clone, Debug, Serialize, Deserialize)]
pub struct History {
  pub ops: Vec<Op>,
  /// complete the history to all 256 punctures in this order family (None = stop)
  pub complete: Option<(u8, u8)>,
}

fn bad_len() -> BoxedStrategy<Vec<u8>> {
  // every wrong length near the right one, and lengths that equal it modulo 2^k bytes / bits
  // (2, 3, 5, 9, 17, 32, 33, 65, 129, 257, 513, 8193, 65537 bytes)
  prop_oneof![
    2 => Just(vec![]),
    4 => vec(any::<u8>(), 2..5),
    2 => vec(any::<u8>(), 32..34),
    4 => (prop_oneof![Just(5usize), Just(9), Just(17), Just(31), Just(33), Just(64), Just(65), Just(97), Just(128), Just(129), Just(256), Just(257), Just(258), Just(513), Just(8193), Just(65537)], any::<u8>())
      .prop_map(|(n, b)| vec![b; n]),
  ]
  .boxed()
}

fn history_strat(tier: Tier) -> BoxedStrategy<History> {
  let n = tier.pick(120usize, 300usize);
  let op = prop_oneof![
    6 => any::<u8>().prop_map(Op::Puncture),
    5 => (0u8..8).prop_map(Op::PunctureSibling),
    3 => (any::<u8>(), prop_oneof![Just(0x0Fu8), Just(0xF0u8), Just(0x03u8), Just(0xC0u8), any::<u8>()]).prop_map(|(v, m)| Op::PunctureNear(v, m)),
    3 => any::<u8>().prop_map(Op::Eval),
    1 => bad_len().prop_map(Op::EvalBadLen),
    1 => bad_len().prop_map(Op::PunctureBadLen),
    2 => any::<u16>().prop_map(Op::RePuncture),
    1 => (1u8..6, any::<bool>()).prop_map(|(k, low)| Op::FinishSubtree(k, low)),
  ];
  (vec(op, 0..n), proptest::option::weighted(0.35, (0u8..6, any::<u8>())))
    .prop_map(|(ops, complete)| History { ops, complete })
    .boxed()
}

pub fn property_history_strat(t: Tier) -> BoxedStrategy<History> {
  history_strat(t)
}

pub fn bitrev(x: u8) -> u8 {
  x.reverse_bits()
}

/// complete permutations of the domain: adversarial order families
pub fn order_family(kind: u8, start: u8) -> Vec<u8> {
  match kind % 6 {
    0 => (0..=255u8).map(|k| start ^ k).collect(),           // sibling first in one bit order
    1 => (0..=255u8).map(|k| start ^ bitrev(k)).collect(),    // sibling first in the other
    2 => (0..=255u8).map(|k| start.wrapping_add(k)).collect(), // ascending from start
    3 => (0..=255u8).map(|k| start.wrapping_sub(k)).collect(), // descending
    4 => {
      // subtree last: everything outside the 16-block of start (both alignments), then the block
      let blk: Vec<u8> = (0..=255u8).filter(|x| x & 0xF0 == start & 0xF0).collect();
      let mut v: Vec<u8> = (0..=255u8).filter(|x| x & 0xF0 != start & 0xF0).collect();
      v.extend(blk);
      v
    }
    _ => {
      let blk: Vec<u8> = (0..=255u8).filter(|x| x & 0x0F == start & 0x0F).collect();
      let mut v: Vec<u8> = (0..=255u8).filter(|x| x & 0x0F != start & 0x0F).collect();
      v.extend(blk);
      v
    }
  }
}

pub fn history_oracle(which: Which) -> impl Fn(&History, &mut Stats) -> Result<(), String> + Clone {
  move |h: &History, st: &mut Stats| {
    let g = GGM::setup();
    let orig = original(&g)?;
    let all: Vec<u8> = (0..=255u8).collect();
    let closure = if which.c11 { Prg::for_fresh_key(&g, &orig) } else { None };
    let mut t = Tracked { g, punctured: BTreeSet::new(), closure };
    let mut order: Vec<u8> = Vec::new();
    let mut prev: u8 = 0;
    let mut steps = 0usize;
    let do_puncture = |t: &mut Tracked, x: u8, order: &mut Vec<u8>, steps: &mut usize, st: &mut Stats| -> Result<(), String> {
      *steps += 1;
      let scope: Vec<u8> = if *steps % 16 == 0 {
        all.clone()
      } else {
        let mut s = neighbourhood(x, *steps as u8);
        s.extend_from_slice(&SPREAD);
        s.extend(order.iter().rev().take(8));
        s
      };
      if !t.punctured.contains(&x) {
        order.push(x);
      }
      step(t, x, &orig, which, &scope, st)?;
      if which.c11 && (order.len() <= 3 || *steps % 16 == 0) {
        check_derivability(t, &orig, st)?;
      }
      Ok(())
    };
    for op in &h.ops {
      match op {
        Op::Puncture(x) => {
          do_puncture(&mut t, *x, &mut order, &mut steps, st)?;
          prev = *x;
        }
        Op::PunctureSibling(i) => {
          let x = prev ^ (1 << (i % 8));
          do_puncture(&mut t, x, &mut order, &mut steps, st)?;
          st.class("op=puncture-sibling");
          prev = x;
        }
        Op::PunctureNear(v, m) => {
          let x = (prev & !m) | (v & m);
          do_puncture(&mut t, x, &mut order, &mut steps, st)?;
          prev = x;
        }
        Op::Eval(x) => {
          if which.c10 {
            check_functional(&t, &orig, std::iter::once(*x), st)?;
          }
        }
        Op::EvalBadLen(b) | Op::PunctureBadLen(b) => {
          if b.len() == 1 {
            continue;
          }
          let nodes_before = t.g.verif_retained_nodes();
          let r = if matches!(op, Op::EvalBadLen(_)) {
            let mut out = [0u8; 32];
            t.g.eval(b, &mut out).map_err(|e| e.to_string())
          } else {
            t.g.puncture(b).map_err(|e| e.to_string())
          };
          st.evals(1);
          if r.is_ok() {
            return Err(format!("an input of length {} was accepted by {}", b.len(), if matches!(op, Op::EvalBadLen(_)) { "eval" } else { "puncture" }));
          }
          if which.c10 {
            if t.g.verif_retained_nodes() != nodes_before {
              return Err(format!("a refused wrong-length call (length {}) changed the key", b.len()));
            }
            check_functional(&t, &orig, all.iter().cloned(), st)?;
          }
          st.class("op=wrong-length");
        }
        Op::RePuncture(k) => {
          if !order.is_empty() {
            let x = order[idx(*k, order.len())];
            do_puncture(&mut t, x, &mut order, &mut steps, st)?;
            st.class("op=re-puncture");
          }
        }
        Op::FinishSubtree(k, low) => {
          let k = (*k).clamp(1, 5);
          let mask: u8 = if *low { ((1u16 << k) - 1) as u8 } else { !(((1u16 << (8 - k)) - 1) as u8) };
          let block: Vec<u8> = (0..=255u8).filter(|x| x & !mask == prev & !mask).collect();
          for x in block {
            if x != prev && !t.punctured.contains(&x) {
              do_puncture(&mut t, x, &mut order, &mut steps, st)?;
            }
          }
          st.class("op=finish-subtree");
        }
      }
    }
    if which.c10 {
      check_functional(&t, &orig, all.iter().cloned(), st)?;
    }
    if which.c11 {
      check_retained(&t, &orig, st)?;
    }
    if let Some((kind, start)) = h.complete {
      for x in order_family(kind, start) {
        if !t.punctured.contains(&x) {
          do_puncture(&mut t, x, &mut order, &mut steps, st)?;
        }
      }
      if t.punctured.len() != 256 {
        return Err("harness: completion did not puncture the whole domain".into());
      }
      if which.c10 {
        check_functional(&t, &orig, all.iter().cloned(), st)?;
      }
      if which.c11 {
        check_retained(&t, &orig, st)?;
        if !t.g.verif_retained_nodes().is_empty() {
          return Err("after puncturing the whole domain the key still retains tree nodes".into());
        }
      }
      st.class(&format!("completed-to-256:family{}", kind % 6));
    }
    if order.len() >= 2 {
      st.nontrivial(&order);
    }
    st.model(order.len() as u64 + 1, steps as u64, 1);
    st.class(match order.len() {
      0..=1 => "punctures<=1",
      2..=15 => "punctures=2-15",
      16..=255 => "punctures=16-255",
      _ => "punctures=256",
    });
    if st.want_sample() {
      st.sample(json!({"puncture_order_prefix": order.iter().take(24).collect::<Vec<_>>(), "punctures": order.len(), "ops": h.ops.len(), "complete": h.complete}));
    }
    Ok(())
  }
}

pub fn property() -> Property {
  Property {
    id: "C10",
    level: "model_checking",
    rule: "reference model = the 256 values evaluated right after setup (pairwise distinct) + the punctured set. (a) exhaustive sub-domain lattices: for 8-leaf sub-domains (quick: 6 shapes - high bits, low bits, spread bits, middle bits, both ends of the domain, scattered; thorough: 18 of them plus four 16-leaf ones) EVERY subset is reached and EVERY single-step transition S -> S+{x} is taken on a clone, re-checking the sub-domain plus 16 outsiders after each; (b) all 256*255 ordered pairs over the full domain (neighbourhoods of both inputs re-checked, all 256 inputs for a sixteenth of the pairs); (c) generated histories (puncture / puncture a sibling / puncture nearby / eval / wrong-length eval and puncture / re-puncture / finish a subtree) optionally completed to all 256 punctures in sibling-first, ascending, descending and subtree-last orders. Invariant after every step: punctured inputs refuse eval and puncture, unpunctured ones keep their original value; wrong-length calls are refused and leave the retained nodes and all 256 values unchanged. Non-trivial: a transition from a state that already holds a puncture (the covering node is not a root child); distinct by (sub-domain, subset, input) / pair / puncture order.",
    assumptions: vec![
      "each explored key is a fresh OsRng key; the tree structure does not depend on the key",
      "2^256 subsets are not enumerable; the lattices are complete for their sub-domains, the rest is sampled",
    ],
    subs: vec![
      enum_sub("subdomain_lattice", lattice_count, lattice_item, lattice_oracle(W10)),
      enum_sub("ordered_pairs", |_| 256, |_, i| PairItem { a: i as u8, b: 0 }, pair_oracle(W10)),
      prop_sub("histories", 300, 8000, history_strat, history_oracle(W10)),
      crate::fuzzentry::fuzz_sub("fuzzbytes_server", "server", "C10", 150, 3000),
      crate::fuzzentry::artefact_sub("artefact_server", "server", "C10"),
    ],
  }
}
