//! C11 Forward security: a punctured key retains nothing that evaluates punctured tags.

use crate::engine::*;
use crate::gens::*;
use crate::ggmx::*;
use crate::pp::*;
use crate::props::c10::{history_oracle, lattice_count, lattice_item, lattice_oracle, pair_oracle, History, LatticeItem, PairItem};
use ppoprf::ppoprf::{Client, Server, ServerKeyState};
use ppoprf::PPRF;
use proptest::collection::vec;
use proptest::prelude::*;
use serde::{Deserialize, Serialize};
use serde_json::json;
use std::collections::BTreeSet;

pub const W11: Which = Which { c10: false, c11: true };

#[derive(Clone, Debug, Serialize, Deserialize)]
pub enum SOp {
  /// puncture the tag selected from the registered set
  Puncture(u16),
  /// puncture an arbitrary (possibly unregistered) tag
  PunctureAny(u8),
  /// export the key state, restore it into a fresh server created with another tag set, continue on the importer
  Transfer,
  /// export and restore, but continue on the exporter (the importer is checked and dropped)
  Fork,
}

#[derive(Clone, Debug, Serialize, Deserialize)]
pub struct SCase {
  pub mds: Vec<u8>,
  pub other_mds: Vec<u8>,
  pub ops: Vec<SOp>,
}

fn strat(tier: Tier) -> BoxedStrategy<SCase> {
  let n = tier.pick(24usize, 60usize);
  let op = prop_oneof![
    5 => any::<u16>().prop_map(SOp::Puncture),
    2 => any::<u8>().prop_map(SOp::PunctureAny),
    2 => Just(SOp::Transfer),
    2 => Just(SOp::Fork),
  ];
  (tag_set(24), tag_set(6), vec(op, 1..n)).prop_map(|(mds, other_mds, ops)| SCase { mds, other_mds, ops }).boxed()
}

fn server_values(s: &Server) -> Vec<Option<Val>> {
  (0..=255u8).map(|x| eval(s.verif_pprf(), x).ok()).collect()
}

fn check_server(
  s: &Server,
  punctured: &BTreeSet<u8>,
  orig: &[Val],
  gone_seeds: &[Vec<u8>],
  closure: &Option<Prg>,
  what: &str,
  st: &mut Stats,
) -> Result<(), String> {
  let t = Tracked {
    g: s.verif_pprf().clone(),
    punctured: punctured.clone(),
    closure: closure.clone(),
  };
  check_retained(&t, orig, st).map_err(|e| format!("{what}: {e}"))?;
  if punctured.len() == 1 || what.starts_with("importer") && punctured.len() % 2 == 0 {
    check_derivability(&t, orig, st).map_err(|e| format!("{what}: {e}"))?;
  }
  // seeds of nodes that covered a punctured input at the time of its puncture must not be retained
  let retained: BTreeSet<Vec<u8>> = s.verif_pprf().verif_retained_nodes().into_iter().map(|n| n.2).collect();
  for g in gone_seeds {
    if retained.contains(g) {
      return Err(format!("{what}: the seed {} that covered a punctured tag at puncture time is still retained", hex::encode(g)));
    }
  }
  // the exported state must not contain them either, nor the punctured values
  let bytes = bincode::serialize(&s.get_private_key()).map_err(|e| format!("export failed: {e}"))?;
  st.evals(1);
  for x in punctured {
    if find_sub(&bytes, &orig[*x as usize]).is_some() {
      return Err(format!("{what}: the exported key state contains the PRF value of punctured tag {x}"));
    }
  }
  for g in gone_seeds {
    if find_sub(&bytes, g).is_some() {
      return Err(format!("{what}: the exported key state contains the seed {} of a node on the path to a punctured tag", hex::encode(g)));
    }
  }
  Ok(())
}

fn oracle(c: &SCase, st: &mut Stats) -> Result<(), String> {
  let mut server = new_server(&c.mds).map_err(|e| e.to_string())?;
  let orig: Vec<Val> = original(server.verif_pprf())?;
  let closure = Prg::for_fresh_key(server.verif_pprf(), &orig);
  let mut punctured: BTreeSet<u8> = BTreeSet::new();
  let mut gone: Vec<Vec<u8>> = Vec::new();
  // for half of the cases a copy of the server taken before any puncture stays alive throughout
  // (a replica, a snapshot): what the punctured server retains must not depend on that
  let _replica = if c.mds.iter().map(|x| *x as u32).sum::<u32>() % 2 == 0 {
    st.class("an-unpunctured-copy-of-the-server-stays-alive");
    Some(server.clone())
  } else {
    None
  };
  let (probe, _) = Client::blind(b"probe");
  let mut transfers = 0;
  for (i, op) in c.ops.iter().enumerate() {
    match op {
      SOp::Puncture(_) | SOp::PunctureAny(_) => {
        let x = match op {
          SOp::Puncture(sel) => pick_tag(&c.mds, *sel),
          SOp::PunctureAny(x) => *x,
          _ => unreachable!(),
        };
        let before = server.verif_pprf().verif_retained_nodes();
        let r = server.puncture(x);
        if punctured.contains(&x) {
          // error or no-op: not this property's business; the tag must stay dead (checked below)
        } else if r.is_ok() || c.mds.contains(&x) {
          r.map_err(|e| format!("puncturing registered tag {x} failed: {e}"))?;
          punctured.insert(x);
          for (cov, _, seed) in before {
            if cov.contains(&x) {
              gone.push(seed);
            }
          }
        } else {
          // an unregistered tag may be refused outright; then nothing changed
          st.class("puncture-of-unregistered-tag-refused");
        }
        check_server(&server, &punctured, &orig, &gone, &closure, &format!("after op {i} (puncture {x})"), st)?;
      }
      SOp::Transfer | SOp::Fork => {
        let bytes = bincode::serialize(&server.get_private_key()).map_err(|e| format!("export failed: {e}"))?;
        let state: ServerKeyState = bincode::deserialize(&bytes).map_err(|e| format!("exported key state does not restore: {e}"))?;
        if state.as_ref() != server.get_private_key() {
          return Err(format!("the key state restored from the bytes exported after op {i} differs from the exporter's key state"));
        }
        // every other importer has already served requests and punctured a tag under its own key
        let mut imp_tags = c.other_mds.clone();
        imp_tags.extend(c.mds.iter().cloned());
        let mut importer = new_server(&imp_tags).map_err(|e| e.to_string())?;
        if i % 2 == 0 {
          for md in imp_tags.iter().take(10) {
            let _ = importer.eval(&probe, *md, false);
          }
          let _ = importer.puncture(imp_tags[imp_tags.len() - 1]);
          st.class("importer-had-served-requests");
        }
        importer.set_private_key(state);
        transfers += 1;
        let what = format!("importer of the state exported after op {i} (punctured {:?})", punctured);
        check_server(&importer, &punctured, &orig, &gone, &closure, &what, st)?;
        // the importer behaves like the exporter on all 256 inputs
        let (a, b) = (server_values(&server), server_values(&importer));
        for x in 0..256usize {
          if a[x] != b[x] {
            return Err(format!("{what}: input {x} evaluates to {:?} on the exporter and {:?} on the importer", a[x].map(hex::encode), b[x].map(hex::encode)));
          }
          if punctured.contains(&(x as u8)) != b[x].is_none() {
            return Err(format!("{what}: input {x} punctured={} but importer evaluates={}", punctured.contains(&(x as u8)), b[x].is_some()));
          }
        }
        // and through the public interface: a punctured registered tag cannot be evaluated by the importer
        for md in c.mds.iter().take(6) {
          let (ra, rb) = (server.eval(&probe, *md, false), importer.eval(&probe, *md, false));
          match (ra, rb) {
            (Ok(x), Ok(y)) => {
              if x.output.as_bytes() != y.output.as_bytes() {
                return Err(format!("{what}: exporter and importer answer differently for tag {md}"));
              }
              if punctured.contains(md) {
                return Err(format!("{what}: punctured tag {md} is still answered"));
              }
            }
            (Err(_), Err(_)) => {
              if !punctured.contains(md) {
                return Err(format!("{what}: registered unpunctured tag {md} refused by both"));
              }
            }
            (a, b) => return Err(format!("{what}: exporter ok={} importer ok={} for tag {md}", a.is_ok(), b.is_ok())),
          }
        }
        if matches!(op, SOp::Transfer) {
          server = importer;
        }
        if !punctured.is_empty() {
          st.class("export-after-puncture");
        }
      }
    }
  }
  st.model(c.ops.len() as u64 + 1, c.ops.len() as u64, 1);
  st.class(&format!("transfers={}", transfers.min(4)));
  if !punctured.is_empty() {
    st.nontrivial(&(&punctured, transfers, c.ops.len()));
  }
  if st.want_sample() {
    st.sample(json!({"registered": c.mds, "ops": format!("{:?}", c.ops), "punctured": punctured}));
  }
  let _ = server.verif_pprf().verif_prg_keys();
  let _ = PPRF::eval(server.verif_pprf(), &[0], &mut [0u8; 32]);
  Ok(())
}

pub fn property() -> Property {
  Property {
    id: "C11",
    level: "model_checking",
    rule: "observes the retained tree nodes through the verif-hooks view (inputs covered by each node, decided with the code's own prefix test; node seed) and the exported key state (bincode of get_private_key). Same exploration as C10 (exhaustive 8-/16-leaf sub-domain lattices, all ordered pairs, generated histories up to complete puncturing) with the C11 invariant after every step: no retained node covers a punctured input; every unpunctured input is covered by exactly one node; neither the value the PRF had at a punctured input nor the seed of the node that covered it before the puncture survives as a retained seed. Server histories (puncture registered / arbitrary tags, export -> bincode -> ServerKeyState -> set_private_key on a fresh server with another tag set, continue on importer or exporter): the same invariants on exporter and importer, the exported bytes contain neither punctured values nor path seeds as a 32-byte substring, importer and exporter agree on all 256 inputs and through Server::eval. Non-trivial: a state with >= 1 puncture; distinct by punctured set / order.",
    assumptions: vec![
      "the hook shows the retained node list and the punctured list, not arbitrary memory: material hidden elsewhere is invisible to a black-box technique",
      "the two static PRG keys are public-parameter-like and are not 'tree nodes'",
    ],
    subs: vec![
      enum_sub("lattice_states", lattice_count, lattice_item, {
        let f = lattice_oracle(W11);
        move |c: &LatticeItem, st: &mut Stats| f(c, st)
      }),
      enum_sub("ordered_pairs", |_| 256, |_, i| PairItem { a: i as u8, b: 0 }, {
        let f = pair_oracle(W11);
        move |c: &PairItem, st: &mut Stats| f(c, st)
      }),
      prop_sub("key_histories", 150, 5000, |t| crate::props::c10::property_history_strat(t), {
        let f = history_oracle(W11);
        move |c: &History, st: &mut Stats| f(c, st)
      }),
      prop_sub("server_export_import", 1500, 40000, strat, oracle),
      crate::fuzzentry::fuzz_sub("fuzzbytes_server", "server", "C11", 150, 3000),
      crate::fuzzentry::artefact_sub("artefact_server", "server", "C11"),
    ],
  }
}
