//! C12 PPOPRF output depends only on (server key, tag, input), never on the blinding.

use crate::engine::*;
use crate::gens::*;
use crate::pp::*;
use curve25519_dalek::scalar::Scalar;
use ppoprf::ppoprf::{Client, Server};
use proptest::prelude::*;
use serde::{Deserialize, Serialize};
use serde_json::json;
use std::collections::BTreeSet;

#[derive(Clone, Debug, Serialize, Deserialize)]
pub struct Case {
  pub input: Hx,
  pub other_input: Hx,
  pub mds: Vec<u8>,
  pub md_sel: u16,
  pub md_sel2: u16,
  pub servers: u8,
  pub requests: u8,
  pub verifiable: bool,
  /// other tags punctured between the requests: (family, start, count) over the puncture-order families of C10;
  /// the evaluated tags are skipped
  #[serde(default)]
  pub punctures: Vec<(u8, u8, u8)>,
  /// blinding scalars chosen by the caller instead of drawn by `Client::blind`: (kind, k) with
  /// kind 0: l - k, 1: 2^252 + k, 2: k, 3: 2^(k mod 253), 4: 64 expanded bytes reduced mod l
  #[serde(default)]
  pub chosen: Vec<(u8, u64)>,
}

fn strat(tier: Tier) -> BoxedStrategy<Case> {
  let max = tier.pick(4096, 65536);
  (prop_oneof![120 => bytes(max), 1 => (65400usize..66100, any::<u64>()).prop_map(|(l, s)| Hx(expand(s, l)))], bytes(200), tag_set(tier.pick(16, 256)), any::<u16>(), any::<u16>(), 1u8..4, 2u8..7, any::<bool>(),
     proptest::collection::vec((0u8..6, any::<u8>(), prop_oneof![3 => 1u8..8, 1 => 8u8..64, 1 => 64u8..=255]), 0..3),
     proptest::collection::vec((0u8..5, prop_oneof![3 => 1u64..5, 1 => any::<u64>()]), 0..4))
    .prop_map(|(input, other_input, mds, md_sel, md_sel2, servers, requests, verifiable, punctures, chosen)| Case {
      chosen,
      input,
      other_input,
      mds,
      md_sel,
      md_sel2,
      servers,
      requests,
      verifiable,
      punctures,
    })
    .boxed()
}

fn oracle(c: &Case, st: &mut Stats) -> Result<(), String> {
  let md = pick_tag(&c.mds, c.md_sel);
  let md2 = pick_tag(&c.mds, c.md_sel2);
  let mut other_input = c.other_input.0.clone();
  if other_input == c.input.0 {
    other_input.push(0);
  }
  let mut servers: Vec<Server> = (0..c.servers.max(1)).map(|_| new_server(&c.mds).map_err(|e| e.to_string())).collect::<Result<_, _>>()?;
  // a first output before any puncture, to be compared with everything that follows
  let before: Vec<[u8; 32]> = servers.iter().map(|s| crate::starx::ppoprf_exchange(s, md, &c.input, false)).collect::<Result<_, _>>()?;
  let mut npunct = 0usize;
  for (kind, start, count) in &c.punctures {
    for x in crate::props::c10::order_family(*kind, *start).into_iter().take(*count as usize) {
      if x != md && x != md2 {
        for s in servers.iter_mut() {
          let _ = s.puncture(x);
        }
        npunct += 1;
      }
    }
  }
  if npunct > 0 {
    st.class(if npunct >= 64 { "other-tags-punctured>=64" } else { "other-tags-punctured<64" });
  }
  let mut finals_by_server: Vec<[u8; 32]> = Vec::new();
  let mut blinded_seen: BTreeSet<[u8; 32]> = BTreeSet::new();
  let mut h_point: Option<[u8; 32]> = None;
  for (si, server) in servers.iter().enumerate() {
    let mut fin: Option<[u8; 32]> = None;
    for rq in 0..c.requests.max(2) {
      let (blinded, r) = Client::blind(&c.input);
      st.evals(1);
      // the unblinded input point is the same for every request
      let h = Client::unblind(&blinded, &r);
      match &h_point {
        None => h_point = Some(*h.as_bytes()),
        Some(h0) => {
          if h0 != h.as_bytes() {
            return Err(format!("unblinding the blinded request gives different input points across requests: {} vs {}", hex::encode(h0), hex::encode(h.as_bytes())));
          }
        }
      }
      if blinded.as_bytes() == h.as_bytes() {
        return Err("a blinded request equals the unblinded input point (blinding scalar 1)".into());
      }
      if !blinded_seen.insert(*blinded.as_bytes()) {
        return Err(format!("two blinded requests for one input are identical: {}", hex::encode(blinded.as_bytes())));
      }
      let rs: Scalar = {
        // CurveScalar -> Scalar through the public conversion; r is consumed, so unblind first
        let ev = server.eval(&blinded, md, c.verifiable).map_err(|e| format!("eval on registered tag {md}: {e}"))?;
        if c.verifiable && !Client::verify(&server.get_public_key(), &blinded, &ev, md) {
          return Err(format!("honest verifiable evaluation rejected (tag {md})"));
        }
        // part of the requests persist the blinding factor while the request is in flight:
        // Scalar -> 32 bytes -> CurveScalar (even requests), Scalar -> CurveScalar (every third)
        let r = if rq % 2 == 1 {
          let sc: Scalar = r.into();
          st.class("blinding-persisted-as-bytes");
          ppoprf::ppoprf::CurveScalar::from(sc.to_bytes())
        } else if rq % 3 == 2 {
          let sc: Scalar = r.into();
          ppoprf::ppoprf::CurveScalar::from(sc)
        } else {
          r
        };
        let unblinded = Client::unblind(&ev.output, &r);
        // the server's evaluation of the unblinded input point
        let direct = server.eval(&h, md, false).map_err(|e| e.to_string())?;
        if unblinded.as_bytes() != direct.output.as_bytes() {
          return Err(format!(
            "client's unblinded result differs from the server's evaluation of the unblinded input point (server {si}, request {rq}, tag {md}): {} vs {}",
            hex::encode(unblinded.as_bytes()),
            hex::encode(direct.output.as_bytes())
          ));
        }
        let mut out = [0u8; 32];
        Client::finalize(&c.input, md, &unblinded, &mut out);
        match &fin {
          None => fin = Some(out),
          Some(f) => {
            if *f != out {
              return Err(format!("finalised output differs between requests (server {si}, tag {md}): {} vs {}", hex::encode(f), hex::encode(out)));
            }
          }
        }
        r.into()
      };
      if rs == Scalar::ZERO || rs == Scalar::ONE {
        return Err(format!("degenerate blinding scalar {:?}", rs.to_bytes()));
      }
    }
    // "every blinding": scalars chosen by the caller (extreme values of the scalar field included),
    // applied to the input point in the harness and handed to unblind through both conversions
    if let Some(hb) = &h_point {
      let hp = curve25519_dalek::ristretto::CompressedRistretto(*hb).decompress().ok_or("the unblinded input point does not decode")?;
      let h = point_from(hb);
      for (kind, k) in &c.chosen {
        let r: Scalar = match kind % 5 {
          0 => -Scalar::from(*k),
          1 => {
            let mut b = [0u8; 32];
            b[31] = 0x10;
            Scalar::from_bytes_mod_order(b) + Scalar::from(*k)
          }
          2 => Scalar::from(*k),
          3 => {
            let mut b = [0u8; 32];
            let bit = (*k % 253) as usize;
            b[bit / 8] = 1 << (bit % 8);
            Scalar::from_bytes_mod_order(b)
          }
          _ => {
            let w = expand(*k, 64);
            let mut b = [0u8; 64];
            b.copy_from_slice(&w);
            Scalar::from_bytes_mod_order_wide(&b)
          }
        };
        if r == Scalar::ZERO {
          continue;
        }
        let blinded = point_from(&(r * hp).compress().to_bytes());
        let ev = server.eval(&blinded, md, c.verifiable).map_err(|e| format!("eval on registered tag {md}: {e}"))?;
        if c.verifiable && !Client::verify(&server.get_public_key(), &blinded, &ev, md) {
          return Err(format!("honest verifiable evaluation rejected (tag {md}, caller-chosen blinding)"));
        }
        let direct = server.eval(&h, md, false).map_err(|e| e.to_string())?;
        for (route, cs) in [("scalar", ppoprf::ppoprf::CurveScalar::from(r)), ("bytes", ppoprf::ppoprf::CurveScalar::from(r.to_bytes()))] {
          st.evals(1);
          let unblinded = Client::unblind(&ev.output, &cs);
          if unblinded.as_bytes() != direct.output.as_bytes() {
            return Err(format!(
              "with the caller-chosen blinding {} (handed over as {route}) the client's unblinded result differs from the server's evaluation of the unblinded input point (server {si}, tag {md})",
              hex::encode(r.to_bytes())
            ));
          }
        }
        st.class(match kind % 5 {
          0 => "chosen-blinding:l-k",
          1 => "chosen-blinding:2^252+k",
          2 => "chosen-blinding:k",
          3 => "chosen-blinding:2^i",
          _ => "chosen-blinding:uniform",
        });
      }
    }
    let fin = fin.unwrap();
    if fin != before[si] {
      return Err(format!(
        "the output for (server {si}, tag {md}, input) changed after {npunct} OTHER tags were punctured: {} before, {} after",
        hex::encode(before[si]),
        hex::encode(fin)
      ));
    }
    // differs between tags
    if md2 != md {
      let f2 = crate::starx::ppoprf_exchange(server, md2, &c.input, c.verifiable)?;
      if f2 == fin {
        return Err(format!("same output under two different tags {md} and {md2}"));
      }
      st.class("cross-tag");
    }
    // differs between inputs
    let f3 = crate::starx::ppoprf_exchange(server, md, &other_input, false)?;
    if f3 == fin {
      return Err("same output for two different inputs".into());
    }
    // ... also between inputs that differ in their last byte only
    if !c.input.is_empty() {
      let mut near = c.input.0.clone();
      let n = near.len();
      near[n - 1] ^= 1;
      if crate::starx::ppoprf_exchange(server, md, &near, false)? == fin {
        return Err(format!("same output for two inputs of {n} bytes that differ in their last byte"));
      }
      if n >= 65536 {
        st.class("input>=64KiB");
      }
    }
    // the helper path agrees with the step-by-step path
    let f4 = crate::starx::ppoprf_exchange(server, md, &c.input, c.verifiable)?;
    if f4 != fin {
      return Err("a further request produced a different finalised output".into());
    }
    finals_by_server.push(fin);
  }
  // servers that live one after the other (each dropped before the next is created, so they may
  // occupy the same memory): independently keyed, so their evaluations of the SAME point under the
  // same tag differ from each other, and each equals what a fresh exchange with that server gives
  if let Some(hb) = &h_point {
    let h = point_from(hb);
    let mut seen: Vec<[u8; 32]> = Vec::new();
    for round in 0..3 {
      let s = new_server(&c.mds).map_err(|e| e.to_string())?;
      let direct = *s.eval(&h, md, false).map_err(|e| e.to_string())?.output.as_bytes();
      st.evals(1);
      if seen.contains(&direct) {
        return Err(format!("server number {round} of a succession of independently keyed servers repeated an earlier server's evaluation of the same point (tag {md})"));
      }
      seen.push(direct);
      let mut fin_direct = [0u8; 32];
      Client::finalize(&c.input, md, &point_from(&direct), &mut fin_direct);
      let fin_exchange = crate::starx::ppoprf_exchange(&s, md, &c.input, c.verifiable)?;
      if fin_direct != fin_exchange {
        return Err(format!("server number {round} of a succession: its evaluation of the input point and a full exchange with it give different outputs (tag {md})"));
      }
    }
    st.class("successive-servers");
  }
  // a server that has already served requests adopts the first server's key
  // (export -> restore): from then on it is the same (key, tag, input)
  if servers.len() >= 2 {
    let bytes = bincode::serialize(&servers[0].get_private_key()).map_err(|e| format!("export failed: {e}"))?;
    let state: ppoprf::ppoprf::ServerKeyState = bincode::deserialize(&bytes).map_err(|e| format!("key state does not restore: {e}"))?;
    let mut adopter = servers[1].clone();
    adopter.set_private_key(state);
    for verifiable in [c.verifiable, !c.verifiable] {
      let f = crate::starx::ppoprf_exchange(&adopter, md, &c.input, verifiable)
        .map_err(|e| format!("server that adopted another server's key state: {e}"))?;
      if f != finals_by_server[0] {
        return Err(format!(
          "a server that adopted the key of server 0 (after having served requests under its own key) gives another output for the same (tag {md}, input): {} vs {}",
          hex::encode(f),
          hex::encode(finals_by_server[0])
        ));
      }
    }
    st.class("key-adopted-by-busy-server");
  }
  // freshness must also hold between threads of one process (clients are often worker threads)
  {
    let input = c.input.0.clone();
    let per_thread: Vec<Vec<([u8; 32], [u8; 32])>> = std::thread::scope(|sc| {
      let hs: Vec<_> = (0..3)
        .map(|_| {
          let input = &input;
          sc.spawn(move || {
            (0..2)
              .map(|_| {
                let (b, r) = Client::blind(input);
                let sc: Scalar = r.into();
                (*b.as_bytes(), sc.to_bytes())
              })
              .collect::<Vec<_>>()
          })
        })
        .collect();
      hs.into_iter().map(|h| h.join().expect("blind thread")).collect()
    });
    let mut scalars: BTreeSet<[u8; 32]> = BTreeSet::new();
    for (ti, v) in per_thread.iter().enumerate() {
      for (k, (b, r)) in v.iter().enumerate() {
        st.evals(1);
        if !blinded_seen.insert(*b) {
          return Err(format!("blinded request number {k} of thread {ti} equals a request made elsewhere in this process for the same input: {}", hex::encode(b)));
        }
        if !scalars.insert(*r) {
          return Err(format!("two threads drew the same blinding scalar (call {k} of thread {ti})"));
        }
      }
    }
    st.class("cross-thread-freshness");
  }
  for i in 0..finals_by_server.len() {
    for j in i + 1..finals_by_server.len() {
      if finals_by_server[i] == finals_by_server[j] {
        return Err(format!("two independently keyed servers ({i}, {j}) produce the same output"));
      }
    }
  }
  if servers.len() > 1 {
    st.class("cross-server");
  }
  st.class(if c.verifiable { "verifiable" } else { "non-verifiable" });
  st.class(match c.input.len() {
    0 => "input=empty",
    1..=255 => "input<256",
    _ => "input>=256",
  });
  st.nontrivial(&(fp(&c.input.0), &c.mds, md, servers.len(), c.requests, c.verifiable));
  if st.want_sample() {
    st.sample(json!({"input_len": c.input.len(), "tags": c.mds.len(), "tag": md, "servers": servers.len(), "requests": c.requests, "verifiable": c.verifiable}));
  }
  Ok(())
}

pub fn property() -> Property {
  Property {
    id: "C12",
    level: "exploration",
    rule: "generated (input bytes incl. empty and up to 4 kB quick / 64 kB thorough, tag sets incl. 0 / 255 / adjacent tags up to 256 tags, 1-3 independently keyed servers, 2-6 repeated requests, verifiable or not). Oracle: unblind(blind(x)) is one point H for all requests; unblind(eval(blind(x), tag)) = eval(H, tag) for every request; finalize is identical across requests, differs across two tags, two inputs, two servers; blinded requests are pairwise different and differ from H; blinding scalars are not 0 or 1; three servers created and dropped one after the other evaluate the input point to three different values, each consistent with a full exchange; the same equation for caller-chosen blindings l-k, 2^252+k, k, 2^i and uniform ones, applied to H in the harness and handed to unblind as scalar and as bytes. Non-trivial: >= 2 requests for one (server, tag, input) with at least one cross comparison (every case); distinct by (input, tag set, tag, servers, requests, mode).",
    assumptions: vec!["blinding scalars and server keys come from OsRng; each case samples them", "unlinkability is only sampled through freshness of the blinded points"],
    subs: vec![prop_sub("obliviousness", 3000, 150000, strat, oracle)],
  }
}
