//! C13 Evaluation proofs are complete, sound against tampering, and never reuse a nonce.

use crate::engine::*;
use crate::gens::*;
use crate::pp::*;
use curve25519_dalek::ristretto::RistrettoPoint;
use curve25519_dalek::scalar::Scalar;
use curve25519_dalek::traits::Identity;
use ppoprf::ppoprf::{Client, Evaluation, Point, Server, ServerPublicKey};
use proptest::prelude::*;
use serde::{Deserialize, Serialize};
use serde_json::json;
use std::collections::BTreeSet;

#[derive(Clone, Debug, Serialize, Deserialize)]
pub struct Case {
  pub input: Hx,
  pub other_input: Hx,
  pub mds: Vec<u8>,
  pub md_sel: u16,
  pub md_sel2: u16,
  /// which bit positions to flip in each 32-byte component (rotating subset)
  pub bits: Vec<u8>,
  pub seed: u64,
  pub repeats: u8,
}

fn strat(_t: Tier) -> BoxedStrategy<Case> {
  (bytes(300), bytes(60), tag_set(8), any::<u16>(), any::<u16>(), proptest::collection::vec(any::<u8>(), 2..6), any::<u64>(), 2u8..5)
    .prop_map(|(input, other_input, mds, md_sel, md_sel2, bits, seed, repeats)| Case {
      input,
      other_input,
      mds,
      md_sel,
      md_sel2,
      bits,
      seed,
      repeats,
    })
    .boxed()
}

struct Tuple {
  pk: Vec<u8>,
  md: u8,
  input: [u8; 32],
  output: [u8; 32],
  c: Scalar,
  s: Scalar,
}

/// verify a tuple given as raw components; Ok(None) if a component does not even
/// decode, Err if verification panicked (neither accepted nor rejected)
fn verify_raw(t: &Tuple) -> Result<Option<bool>, String> {
  let pk = match ServerPublicKey::load_from_bincode(&t.pk) {
    Ok(pk) => pk,
    Err(_) => return Ok(None),
  };
  let ev = Evaluation {
    output: point_from(&t.output),
    proof: Some(proof_from_scalars(&t.c, &t.s)),
  };
  no_panic(|| Client::verify(&pk, &point_from(&t.input), &ev, t.md))
    .map(Some)
    .map_err(|p| format!("Client::verify neither accepted nor rejected, it panicked: {p}"))
}

fn oracle(c: &Case, st: &mut Stats) -> Result<(), String> {
  let mut server = new_server(&c.mds).map_err(|e| e.to_string())?;
  let server2 = Server::new(c.mds.clone()).map_err(|e| e.to_string())?;
  let md = pick_tag(&c.mds, c.md_sel);
  let md2 = pick_tag(&c.mds, c.md_sel2);
  // the server has a history: a generated subset of the OTHER registered tags (and now and then
  // an unregistered one) has been punctured before the requests arrive; proofs for the live
  // tags must verify all the same
  {
    let mut n = 0;
    for (i, t) in c.mds.iter().enumerate() {
      if *t != md && *t != md2 && (c.seed >> (i % 48)) & 1 == 1 {
        let _ = server.puncture(*t);
        n += 1;
      }
    }
    if (c.seed >> 50) & 3 == 0 {
      let stray = (c.seed >> 52) as u8;
      if stray != md && stray != md2 {
        let _ = server.puncture(stray);
      }
    }
    if n > 0 {
      st.class("other-tags-punctured-before-the-requests");
    }
  }
  let pk = server.get_public_key();
  let pkb = pk.serialize_to_bincode().map_err(|e| e.to_string())?;
  let pk2b = server2.get_public_key().serialize_to_bincode().map_err(|e| e.to_string())?;
  let mut other_input = c.other_input.0.clone();
  if other_input == c.input.0 {
    other_input.push(1);
  }

  // honest tuples: repeated identical requests, another input, another tag
  let mut commitments: BTreeSet<[u8; 32]> = BTreeSet::new();
  let mut honest: Vec<(Point, Evaluation, u8)> = Vec::new();
  let (blinded, _r) = Client::blind(&c.input);
  for _ in 0..c.repeats.max(2) {
    // the very same blinded point is sent again: the proofs must still use fresh nonces
    let ev = server.eval(&blinded, md, true).map_err(|e| e.to_string())?;
    honest.push((blinded.clone(), ev, md));
  }
  let (b2, _) = Client::blind(&other_input);
  honest.push((b2.clone(), server.eval(&b2, md, true).map_err(|e| e.to_string())?, md));
  if md2 != md {
    honest.push((blinded.clone(), server.eval(&blinded, md2, true).map_err(|e| e.to_string())?, md2));
  }
  // copies of the server (clone, export/import) answer further requests: their proofs count too
  {
    let clone = server.clone();
    honest.push((b2.clone(), clone.eval(&b2, md, true).map_err(|e| e.to_string())?, md));
    honest.push((blinded.clone(), clone.eval(&blinded, md, true).map_err(|e| e.to_string())?, md));
    let bytes = bincode::serialize(&server.get_private_key()).map_err(|e| format!("export failed: {e}"))?;
    let state: ppoprf::ppoprf::ServerKeyState = bincode::deserialize(&bytes).map_err(|e| format!("key state does not restore: {e}"))?;
    let mut restored = new_server(&c.mds).map_err(|e| e.to_string())?;
    restored.set_private_key(state);
    honest.push((b2.clone(), restored.eval(&b2, md, true).map_err(|e| e.to_string())?, md));
    // the original keeps answering after the copies were made
    honest.push((b2.clone(), server.eval(&b2, md, true).map_err(|e| e.to_string())?, md));
    // and requests served concurrently on other threads by the same instance
    let extra: Vec<Result<Evaluation, String>> = std::thread::scope(|sc| {
      let hs: Vec<_> = (0..2)
        .map(|_| {
          let (srv, pt) = (&server, &b2);
          sc.spawn(move || srv.eval(pt, md, true).map_err(|e| e.to_string()))
        })
        .collect();
      hs.into_iter().map(|h| h.join().expect("eval thread")).collect()
    });
    for e in extra {
      honest.push((b2.clone(), e?, md));
    }
    st.class("proofs-from-clone-and-restored-copy");
  }
  for (q, ev, m) in &honest {
    st.evals(1);
    // completeness, original form
    if !Client::verify(&pk, q, ev, *m) {
      return Err(format!("honest verifiable evaluation rejected (tag {m})"));
    }
    // completeness, restored forms
    let pk_r = ServerPublicKey::load_from_bincode(&pkb).map_err(|e| format!("honest pk does not restore: {e}"))?;
    let ev_json = serde_json::to_string(ev).map_err(|e| e.to_string())?;
    let ev_r: Evaluation = serde_json::from_str(&ev_json).map_err(|e| format!("honest evaluation does not restore from {ev_json}: {e}"))?;
    if !Client::verify(&pk_r, q, &ev_r, *m) {
      return Err(format!("honest evaluation rejected after the public key and the evaluation were serialised and restored (tag {m})"));
    }
    // nonce: recompute the commitment s*G + c*PK_tag
    let proof = ev.proof.as_ref().ok_or("verifiable evaluation without proof")?;
    let (cc, ss) = proof_scalars(proof)?;
    let pv = combined_pk(&pk, *m)?;
    let t2 = (ss * basepoint() + cc * pv).compress().to_bytes();
    if !commitments.insert(t2) {
      return Err(format!(
        "two proofs carry the same commitment {} (nonce reuse exposes the key): tag {m}",
        hex::encode(t2)
      ));
    }
  }
  st.class_n("honest-tuples", honest.len() as u64);

  // a degenerate but legal request: the identity as input point (its evaluation is the
  // identity again).  Completeness is not demanded for it (a verifier may refuse identity
  // points outright), soundness is: its proof must not verify for anything else.
  let ident_pt = point_from(&RistrettoPoint::identity().compress().to_bytes());
  let ident_ev = server.eval(&ident_pt, md, true).map_err(|e| format!("evaluation of the identity point: {e}"))?;
  let mut bases: Vec<(Point, &Evaluation, u8, bool)> = vec![(honest[0].0.clone(), &honest[0].1, honest[0].2, true)];
  bases.push((ident_pt.clone(), &ident_ev, md, false));
  for (q, ev, m, must_verify) in bases.iter().map(|(q, e, m, v)| (q, *e, *m, *v)) {
  // soundness: exactly one component changed
  let (cc, ss) = proof_scalars(ev.proof.as_ref().unwrap())?;
  let base = Tuple {
    pk: pkb.clone(),
    md: m,
    input: *q.as_bytes(),
    output: *ev.output.as_bytes(),
    c: cc,
    s: ss,
  };
  if must_verify && verify_raw(&base)? != Some(true) {
    return Err("harness: the honest tuple rebuilt from raw components does not verify".into());
  }
  if !must_verify {
    st.class("base=identity-input");
  }
  let other_ev = honest.iter().find(|(q, _, _)| q.as_bytes() == b2.as_bytes()).expect("tuple for the other input");
  let (oc, os) = proof_scalars(other_ev.1.proof.as_ref().unwrap())?;
  let tamper = |name: &str, t: Tuple, st: &mut Stats| -> Result<(), String> {
    st.evals(1);
    match verify_raw(&t).map_err(|e| format!("{e} ({name})"))? {
      None => {
        st.class("tamper=rejected-at-decode");
        Ok(())
      }
      Some(false) => {
        st.class("tamper=rejected-by-proof");
        st.nontrivial(&(name, t.pk.clone(), t.md, t.input, t.output, t.c.to_bytes(), t.s.to_bytes()));
        Ok(())
      }
      Some(true) => Err(format!(
        "tampered evaluation ACCEPTED ({name}): pk {} tag {} input {} output {} c {} s {}",
        hex::encode(&t.pk),
        t.md,
        hex::encode(t.input),
        hex::encode(t.output),
        hex::encode(t.c.to_bytes()),
        hex::encode(t.s.to_bytes())
      )),
    }
  };
  let mk = |f: &dyn Fn(&mut Tuple)| -> Tuple {
    let mut t = Tuple {
      pk: base.pk.clone(),
      md: base.md,
      input: base.input,
      output: base.output,
      c: base.c,
      s: base.s,
    };
    f(&mut t);
    t
  };
  let vp = valid_point(c.seed).compress().to_bytes();
  let ident = RistrettoPoint::identity().compress().to_bytes();
  // output point
  for (name, v) in [("output := another honest output", *other_ev.1.output.as_bytes()), ("output := input point", base.input), ("output := unrelated valid point", vp), ("output := identity", ident), ("output := undecodable", [0xFFu8; 32])] {
    if v != base.output {
      tamper(name, mk(&|t| t.output = v), st)?;
    }
  }
  // input point
  for (name, v) in [("input := another honest blinded point", *b2.as_bytes()), ("input := output point", base.output), ("input := unrelated valid point", vp), ("input := identity", ident), ("input := undecodable", [0xFFu8; 32])] {
    if v != base.input {
      tamper(name, mk(&|t| t.input = v), st)?;
    }
  }
  // tag
  for other in c.mds.iter().filter(|x| **x != m).take(3) {
    tamper("tag := another registered tag", mk(&|t| t.md = *other), st)?;
  }
  tamper("tag := tag+1 (possibly unregistered)", mk(&|t| t.md = m.wrapping_add(1)), st)?;
  // proof scalars
  for (name, f) in [
    ("c := c+1", Box::new(|t: &mut Tuple| t.c += Scalar::ONE) as Box<dyn Fn(&mut Tuple)>),
    ("c := c-1", Box::new(|t: &mut Tuple| t.c -= Scalar::ONE)),
    ("s := s+1", Box::new(|t: &mut Tuple| t.s += Scalar::ONE)),
    ("s := s-1", Box::new(|t: &mut Tuple| t.s -= Scalar::ONE)),
    ("c := 0", Box::new(|t: &mut Tuple| t.c = Scalar::ZERO)),
    ("s := 0", Box::new(|t: &mut Tuple| t.s = Scalar::ZERO)),
    ("c,s := 0", Box::new(|t: &mut Tuple| { t.c = Scalar::ZERO; t.s = Scalar::ZERO })),
    ("c <-> s", Box::new(|t: &mut Tuple| std::mem::swap(&mut t.c, &mut t.s))),
    ("c := c of another proof", Box::new(move |t: &mut Tuple| t.c = oc)),
    ("s := s of another proof", Box::new(move |t: &mut Tuple| t.s = os)),
    ("proof := another honest proof", Box::new(move |t: &mut Tuple| { t.c = oc; t.s = os })),
  ] {
    let t = mk(&*f);
    if t.c != base.c || t.s != base.s {
      tamper(name, t, st)?;
    }
  }
  // proof scalars as BYTES: an encoding that is not the canonical one of the honest scalar
  // (c + j*l, s + j*l, high bits set) must be refused by the decoders or fail verification -
  // the decoders are really exercised here, through both restore routes
  if must_verify {
    let l = num_bigint::BigUint::parse_bytes(b"7237005577332262213973186563042994240857116359379907606001950938285454250989", 10).unwrap();
    let honest_bytes = {
      let mut v = base.c.to_bytes().to_vec();
      v.extend_from_slice(&base.s.to_bytes());
      v
    };
    let pk_restored = ServerPublicKey::load_from_bincode(&base.pk).map_err(|e| e.to_string())?;
    for (which, j) in [(0usize, 1u32), (0, 7), (1, 1), (1, 15), (0, 15)] {
      let v = num_bigint::BigUint::from_bytes_le(&honest_bytes[32 * which..32 * which + 32]) + &l * j;
      let vb = v.to_bytes_le();
      if vb.len() > 32 {
        continue;
      }
      let mut raw = honest_bytes.clone();
      for k in 0..32 {
        raw[32 * which + k] = *vb.get(k).unwrap_or(&0);
      }
      st.evals(1);
      let name = format!("proof scalar {} replaced by a non-canonical encoding (+{}*l)", if which == 0 { "c" } else { "s" }, j);
      // route 1: binary form of the proof
      match no_panic(|| ppoprf::ppoprf::ProofDLEQ::load_from_bincode(&raw)).map_err(|p| format!("proof decoder panicked: {p}"))? {
        Err(_) => {
          st.class("tamper=rejected-at-decode");
        }
        Ok(pr) => {
          let ev2 = Evaluation { output: point_from(&base.output), proof: Some(pr) };
          if Client::verify(&pk_restored, &point_from(&base.input), &ev2, base.md) {
            return Err(format!("tampered evaluation ACCEPTED ({name}, binary route): proof bytes {}", hex::encode(&raw)));
          }
          st.class("tamper=rejected-by-proof");
        }
      }
      // route 2: JSON form of the evaluation (scalars as arrays of 32 numbers)
      let hon_json = serde_json::to_value(ev).map_err(|e| e.to_string())?;
      let mut tj = hon_json.clone();
      let key = if which == 0 { "c" } else { "s" };
      if let Some(arr) = tj.get_mut("proof").and_then(|p| p.get_mut(key)).and_then(|a| a.as_array_mut()) {
        if arr.len() == 32 {
          for k in 0..32 {
            arr[k] = serde_json::json!(raw[32 * which + k]);
          }
          match serde_json::from_str::<Evaluation>(&tj.to_string()) {
            Err(_) => {
              st.class("tamper=rejected-at-decode");
            }
            Ok(ev3) => {
              if Client::verify(&pk_restored, &point_from(&base.input), &ev3, base.md) {
                return Err(format!("tampered evaluation ACCEPTED ({name}, JSON route): {}", tj));
              }
            }
          }
        }
      }
    }
  }
  // public key: base point, the verified tag's entry, another server's whole key
  let (model, _) = PkModel::decode(&pkb)?;
  let entry_idx = model.entries.iter().position(|(t, _)| *t == m).ok_or("tag entry missing in public key")?;
  let entry_off = 40 + 33 * entry_idx + 1;
  for (name, off) in [("pk base point", 0usize), ("pk entry of the verified tag", entry_off)] {
    for (what, v) in [("unrelated valid point", vp), ("identity", ident), ("undecodable", [0xFFu8; 32])] {
      tamper(&format!("{name} := {what}"), mk(&|t| t.pk[off..off + 32].copy_from_slice(&v)), st)?;
    }
    // the corresponding point of another server
    let (m2, _) = PkModel::decode(&pk2b)?;
    let v2 = if off == 0 { m2.base } else { m2.map()[&m] };
    tamper(&format!("{name} := that of another server"), mk(&|t| t.pk[off..off + 32].copy_from_slice(&v2)), st)?;
    // the entry of another tag of the same server
    if off != 0 {
      if let Some((_, e2)) = model.entries.iter().find(|(t, _)| *t != m) {
        let e2 = *e2;
        tamper("pk entry of the verified tag := entry of another tag", mk(&|t| t.pk[off..off + 32].copy_from_slice(&e2)), st)?;
      }
    }
  }
  tamper("pk := whole key of another server", mk(&|t| t.pk = pk2b.clone()), st)?;
  // single bit flips of every encoding, for the generated bit positions
  for b in &c.bits {
    let (byte, bit) = ((*b as usize) / 8, *b % 8);
    tamper("bit flip in output", mk(&|t| t.output[byte] ^= 1 << bit), st)?;
    tamper("bit flip in input", mk(&|t| t.input[byte] ^= 1 << bit), st)?;
    tamper("bit flip in pk base", mk(&|t| t.pk[byte] ^= 1 << bit), st)?;
    tamper("bit flip in pk entry", mk(&|t| t.pk[entry_off + byte] ^= 1 << bit), st)?;
    for which in 0..2 {
      let mut raw = if which == 0 { base.c.to_bytes() } else { base.s.to_bytes() };
      raw[byte] ^= 1 << bit;
      if let Some(sc) = scalar_canonical(&raw) {
        tamper("bit flip in proof scalar", mk(&|t| if which == 0 { t.c = sc } else { t.s = sc }), st)?;
      } else {
        st.class("tamper=rejected-at-decode");
      }
    }
    tamper("bit flip in tag", mk(&|t| t.md ^= 1 << bit), st)?;
  }
  }
  let m = md;
  if st.want_sample() {
    st.sample(json!({"tags": c.mds, "tag": m, "honest_tuples": honest.len(), "bit_positions": c.bits}));
  }
  Ok(())
}

pub fn property() -> Property {
  Property {
    id: "C13",
    level: "fault_enumeration",
    rule: "honest tuples (public key, tag, input point, output point, c, s) from generated servers (with a generated subset of their other tags punctured beforehand) / inputs / tags incl. repeated identical requests; completeness in original form and after bincode (key) and JSON (evaluation) round trips; nonce check: commitments s*G + c*PK_tag recomputed with curve25519-dalek are pairwise different across all proofs of the case; soundness: each of the six components replaced in turn by another honest value of the same type (other request / tag / server), a neighbouring value (+-1 on scalars, single bit flips at generated positions of every encoding), the identity / zero, an undecodable string, swapped scalars - every such tuple must be rejected (at decode or by the proof equation). Public-key tampering is limited to the base point, the verified tag's entry and another server's whole key. Non-trivial: a tampered tuple whose every component still decodes; distinct by the tuple.",
    assumptions: vec!["server keys and proof nonces come from OsRng", "bincode form of proof = c || s, of the key = base, u64 count, (u8, point)*"],
    subs: vec![prop_sub("completeness_soundness_nonce", 1500, 80000, strat, oracle)],
  }
}
