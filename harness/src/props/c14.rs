//! C14 Randomness server answers iff tag registered and unpunctured, under any history.

use crate::engine::*;
use crate::pp::*;
use ppoprf::ppoprf::{Server, ServerKeyState};
use proptest::collection::vec;
use proptest::prelude::*;
use serde::{Deserialize, Serialize};
use serde_json::json;
use std::collections::{BTreeMap, BTreeSet};

#[derive(Clone, Debug, Serialize, Deserialize)]
pub enum Tag {
  /// one of the registered tags of the handle's lineage (mapped)
  Registered(u16),
  /// neighbour (+1 / -1) of a registered tag
  Adjacent(u16, bool),
  /// a registered tag with one bit flipped (tree neighbours at every level)
  Flip(u16, u8),
  Raw(u8),
}

#[derive(Clone, Debug, Serialize, Deserialize)]
pub enum Op {
  Eval { h: u16, tag: Tag, point: u8, verifiable: bool },
  Puncture { h: u16, tag: Tag },
  Clone { h: u16 },
  /// export from h, import into a fresh server created with the other tag set
  ExportImport { h: u16 },
  /// export from `from` and import into the EXISTING handle `to` (which may have served requests and punctured tags under its old key)
  ImportInto { from: u16, to: u16 },
  /// evaluate all 256 tags on handle h
  Sweep { h: u16 },
  /// puncture a whole block of tags on handle h: the first `count` tags of a C10 order family
  PunctureBlock { h: u16, kind: u8, start: u8, count: u8 },
  /// a fresh independently keyed server with the same tag set
  NewServer,
}

#[derive(Clone, Debug, Serialize, Deserialize)]
pub struct Case {
  pub mds: Vec<u8>,
  pub other_mds: Vec<u8>,
  pub ops: Vec<Op>,
}

fn tag() -> BoxedStrategy<Tag> {
  prop_oneof![
    5 => any::<u16>().prop_map(Tag::Registered),
    2 => (any::<u16>(), any::<bool>()).prop_map(|(s, up)| Tag::Adjacent(s, up)),
    2 => (any::<u16>(), 0u8..8).prop_map(|(s, b)| Tag::Flip(s, b)),
    1 => prop_oneof![Just(0u8), Just(255u8), any::<u8>()].prop_map(Tag::Raw),
  ]
  .boxed()
}

fn strat(tier: Tier) -> BoxedStrategy<Case> {
  let n = tier.pick(60usize, 120usize);
  let op = prop_oneof![
    6 => (any::<u16>(), tag(), 0u8..5, any::<bool>()).prop_map(|(h, tag, point, verifiable)| Op::Eval { h, tag, point, verifiable }),
    5 => (any::<u16>(), tag()).prop_map(|(h, tag)| Op::Puncture { h, tag }),
    2 => any::<u16>().prop_map(|h| Op::Clone { h }),
    2 => any::<u16>().prop_map(|h| Op::ExportImport { h }),
    2 => (any::<u16>(), any::<u16>()).prop_map(|(from, to)| Op::ImportInto { from, to }),
    1 => any::<u16>().prop_map(|h| Op::Sweep { h }),
    1 => Just(Op::NewServer),
    1 => (any::<u16>(), 0u8..6, any::<u8>(), prop_oneof![2 => 2u8..40, 1 => 40u8..=255]).prop_map(|(h, kind, start, count)| Op::PunctureBlock { h, kind, start, count }),
  ];
  (tag_set(10), tag_set(5), vec(op, 1..n)).prop_map(|(mds, other_mds, ops)| Case { mds, other_mds, ops }).boxed()
}

struct Handle {
  server: Server,
  lineage: usize,
  punctured: BTreeSet<u8>,
}

struct Model {
  /// registered tags per lineage (fixed at key creation)
  registered: Vec<BTreeSet<u8>>,
  /// public key bytes per lineage
  pk: Vec<Vec<u8>>,
  /// (lineage, tag, point) -> output
  memo: BTreeMap<(usize, u8, u8), [u8; 32]>,
}

fn resolve(t: &Tag, reg: &[u8]) -> u8 {
  match t {
    Tag::Registered(s) => pick_tag(reg, *s),
    Tag::Adjacent(s, up) => {
      let b = pick_tag(reg, *s);
      if *up {
        b.wrapping_add(1)
      } else {
        b.wrapping_sub(1)
      }
    }
    Tag::Flip(s, b) => pick_tag(reg, *s) ^ (1 << (b % 8)),
    Tag::Raw(x) => *x,
  }
}

pub fn oracle(c: &Case, st: &mut Stats) -> Result<(), String> {
  // four ordinary points and, last, the neutral element (a degenerate but decodable request)
  let mut points: Vec<_> = (0..4u64).map(|i| point_from(&valid_point(1000 + i).compress().to_bytes())).collect();
  points.push(point_from(&[0u8; 32]));
  let first = new_server(&c.mds).map_err(|e| e.to_string())?;
  let mut model = Model {
    registered: vec![c.mds.iter().cloned().collect()],
    pk: vec![first.get_public_key().serialize_to_bincode().map_err(|e| e.to_string())?],
    memo: BTreeMap::new(),
  };
  let mut handles = vec![Handle { server: first, lineage: 0, punctured: BTreeSet::new() }];
  let (mut saw_puncture, mut interesting) = (false, false);

  // evaluate (handle, tag, point) and compare with the model
  fn eval_check(h: &Handle, model: &mut Model, md: u8, pi: u8, verifiable: bool, points: &[ppoprf::ppoprf::Point], ctx: &str, st: &mut Stats) -> Result<(), String> {
    st.evals(1);
    let expect_ok = model.registered[h.lineage].contains(&md) && !h.punctured.contains(&md);
    let r = h.server.eval(&points[pi as usize % points.len()], md, verifiable);
    match r {
      Ok(ev) => {
        if !expect_ok {
          return Err(format!(
            "{ctx}: server answered for tag {md} although it is {} (lineage {}, punctured {:?})",
            if h.punctured.contains(&md) { "punctured" } else { "not registered" },
            h.lineage,
            h.punctured
          ));
        }
        if verifiable != ev.proof.is_some() {
          return Err(format!("{ctx}: verifiable={verifiable} but proof present={}", ev.proof.is_some()));
        }
        let out = *ev.output.as_bytes();
        match model.memo.get(&(h.lineage, md, pi % points.len() as u8)) {
          Some(prev) if *prev != out => {
            return Err(format!(
              "{ctx}: the answer for (tag {md}, point {pi}) changed: {} -> {}",
              hex::encode(prev),
              hex::encode(out)
            ))
          }
          Some(_) => {}
          None => {
            model.memo.insert((h.lineage, md, pi % points.len() as u8), out);
          }
        }
      }
      Err(e) => {
        // the neutral element may be refused outright (a server is free to harden against it);
        // what it may never get is an answer for a tag that is punctured or not registered
        let neutral = points[pi as usize % points.len()].as_bytes() == &[0u8; 32];
        if expect_ok && !neutral {
          return Err(format!("{ctx}: server refused registered, unpunctured tag {md}: {e} (punctured in this history: {:?})", h.punctured));
        }
      }
    }
    Ok(())
  }

  for (i, op) in c.ops.iter().enumerate() {
    let ctx = format!("op {i} {:?}", op);
    match op {
      Op::Eval { h, tag, point, verifiable } => {
        let hi = idx(*h, handles.len());
        let reg: Vec<u8> = model.registered[handles[hi].lineage].iter().cloned().collect();
        let md = resolve(tag, &reg);
        eval_check(&handles[hi], &mut model, md, *point, *verifiable, &points, &ctx, st)?;
        if saw_puncture {
          interesting = true;
        }
      }
      Op::Puncture { h, tag } => {
        let hi = idx(*h, handles.len());
        let reg: Vec<u8> = model.registered[handles[hi].lineage].iter().cloned().collect();
        let md = resolve(tag, &reg);
        st.evals(1);
        let r = handles[hi].server.puncture(md);
        let first_time = !handles[hi].punctured.contains(&md);
        let registered = model.registered[handles[hi].lineage].contains(&md);
        if registered || r.is_ok() {
          // a registered tag must be puncturable exactly once; an unregistered tag may be
          // refused outright (the statement does not say either way), but if the server
          // accepts it the second attempt must fail like any other
          // the first puncture of a registered tag must succeed; whether a repeated puncture is an
          // error or a no-op is not part of this property (the tag stays punctured either way)
          if first_time && r.is_err() {
            return Err(format!("{ctx}: first puncture of tag {md} failed: {:?}", r.err().map(|e| e.to_string())));
          }
          if !first_time {
            st.class(if r.is_ok() { "repeated-puncture=ok" } else { "repeated-puncture=err" });
          }
          handles[hi].punctured.insert(md);
        } else {
          st.class("puncture-of-unregistered-tag-refused");
        }
        saw_puncture = true;
        // puncturing one tag never affects another: neighbours and all registered tags still answer
        let lin = handles[hi].lineage;
        for t2 in [md.wrapping_add(1), md.wrapping_sub(1), md ^ 0x80, md ^ 0x01]
          .into_iter()
          .chain(reg.iter().cloned())
        {
          if model.registered[lin].contains(&t2) {
            eval_check(&handles[hi], &mut model, t2, 0, false, &points, &ctx, st)?;
          }
        }
        eval_check(&handles[hi], &mut model, md, 0, false, &points, &ctx, st)?;
      }
      Op::Clone { h } => {
        let hi = idx(*h, handles.len());
        let c2 = Handle {
          server: handles[hi].server.clone(),
          lineage: handles[hi].lineage,
          punctured: handles[hi].punctured.clone(),
        };
        handles.push(c2);
        if saw_puncture {
          interesting = true;
        }
        st.class("op=clone");
      }
      Op::ExportImport { h } => {
        let hi = idx(*h, handles.len());
        let bytes = bincode::serialize(&handles[hi].server.get_private_key()).map_err(|e| format!("{ctx}: export failed: {e}"))?;
        let state: ServerKeyState = bincode::deserialize(&bytes).map_err(|e| format!("{ctx}: exported state does not restore: {e}"))?;
        if state.as_ref() != handles[hi].server.get_private_key() {
          return Err(format!("{ctx}: the key state restored from the exported bytes differs from the exporter's key state"));
        }
        // the importer is a server that already served requests under its own key:
        // created with another tag set plus the exporter's tags, and swept before the import
        let mut imp_tags = c.other_mds.clone();
        if i % 2 == 0 {
          imp_tags.extend(c.mds.iter().cloned());
        }
        let mut fresh = new_server(&imp_tags).map_err(|e| e.to_string())?;
        if i % 3 != 0 {
          for md in imp_tags.iter().take(12) {
            let _ = fresh.eval(&points[1], *md, i % 2 == 1);
          }
          if let Some(md) = imp_tags.first() {
            let _ = fresh.puncture(*md);
          }
          st.class("importer-had-served-requests");
        }
        fresh.set_private_key(state);
        let imp = Handle {
          server: fresh,
          lineage: handles[hi].lineage,
          punctured: handles[hi].punctured.clone(),
        };
        // indistinguishable from the exporter at the moment of export: all 256 tags, one point
        for md in 0..=255u8 {
          eval_check(&imp, &mut model, md, 1, false, &points, &format!("{ctx} (importer)"), st)?;
          eval_check(&handles[hi], &mut model, md, 1, false, &points, &format!("{ctx} (exporter)"), st)?;
        }
        handles.push(imp);
        if saw_puncture {
          interesting = true;
          st.class("export-after-puncture");
        }
        st.class("op=export-import");
      }
      Op::ImportInto { from, to } => {
        let (fi, ti) = (idx(*from, handles.len()), idx(*to, handles.len()));
        if fi != ti {
          let bytes = bincode::serialize(&handles[fi].server.get_private_key()).map_err(|e| format!("{ctx}: export failed: {e}"))?;
          let state: ServerKeyState = bincode::deserialize(&bytes).map_err(|e| format!("{ctx}: exported state does not restore: {e}"))?;
          handles[ti].server.set_private_key(state);
          handles[ti].lineage = handles[fi].lineage;
          handles[ti].punctured = handles[fi].punctured.clone();
          for md in 0..=255u8 {
            eval_check(&handles[ti], &mut model, md, 1, md % 7 == 0, &points, &format!("{ctx} (importing handle)"), st)?;
          }
          st.class("op=import-into-existing-handle");
          if saw_puncture {
            interesting = true;
          }
        }
      }
      Op::Sweep { h } => {
        let hi = idx(*h, handles.len());
        for md in 0..=255u8 {
          eval_check(&handles[hi], &mut model, md, 2, md % 5 == 0, &points, &ctx, st)?;
        }
        st.class("op=sweep");
      }
      Op::PunctureBlock { h, kind, start, count } => {
        let hi = idx(*h, handles.len());
        let lin = handles[hi].lineage;
        // keep at least one registered tag alive so that "answers never change" stays observable
        let keep: Option<u8> = model.registered[lin].iter().find(|t| !handles[hi].punctured.contains(t)).cloned();
        for x in crate::props::c10::order_family(*kind, *start).into_iter().take(*count as usize) {
          if Some(x) == keep {
            continue;
          }
          let first_time = !handles[hi].punctured.contains(&x);
          let r = handles[hi].server.puncture(x);
          if model.registered[lin].contains(&x) || r.is_ok() {
            if first_time && r.is_err() {
              return Err(format!("{ctx}: first puncture of tag {x} failed"));
            }
            handles[hi].punctured.insert(x);
          }
        }
        saw_puncture = true;
        for md in model.registered[lin].clone() {
          eval_check(&handles[hi], &mut model, md, 0, false, &points, &ctx, st)?;
        }
        st.class("op=puncture-block");
      }
      Op::NewServer => {
        let s = new_server(&c.mds).map_err(|e| e.to_string())?;
        model.registered.push(c.mds.iter().cloned().collect());
        model.pk.push(s.get_public_key().serialize_to_bincode().map_err(|e| e.to_string())?);
        handles.push(Handle { server: s, lineage: model.pk.len() - 1, punctured: BTreeSet::new() });
      }
    }
    // the public key of every handle never changes
    for (k, h) in handles.iter().enumerate() {
      let pk = h.server.get_public_key().serialize_to_bincode().map_err(|e| e.to_string())?;
      if pk != model.pk[h.lineage] {
        return Err(format!("{ctx}: the public key of handle {k} (lineage {}) changed", h.lineage));
      }
    }
    if handles.len() > 24 {
      handles.truncate(24);
    }
  }
  // final sweep on every handle
  for h in &handles {
    for md in 0..=255u8 {
      eval_check(h, &mut model, md, 3, false, &points, "final sweep", st)?;
    }
  }
  st.model(c.ops.len() as u64 + 1, c.ops.len() as u64, 1);
  st.class(&format!("handles={}", handles.len().min(8)));
  if interesting {
    st.nontrivial(&(format!("{:?}", c.ops), &c.mds));
  }
  if st.want_sample() {
    st.sample(json!({"registered": c.mds, "importer_created_with": c.other_mds, "ops": c.ops.iter().take(12).map(|o| format!("{o:?}")).collect::<Vec<_>>(), "n_ops": c.ops.len()}));
  }
  Ok(())
}

pub fn property() -> Property {
  Property {
    id: "C14",
    level: "model_checking",
    rule: "model-based histories: a pool of server handles, each with a lineage (key identity), the lineage's registered tag set and the handle's punctured set; a memo (lineage, tag, point) -> output; the public-key bytes per lineage. Ops (1..60 per history, 120 thorough): Eval(handle, registered / adjacent / raw tag, one of 4 valid points or the neutral element, verifiable), Puncture(handle, tag incl. unregistered, already punctured, 0, 255, adjacent), Clone, ExportImport into a fresh server created with a different tag set, Sweep of all 256 tags, NewServer. Invariant after every op: eval is Ok iff tag registered in the lineage and not punctured in that handle's history; Ok outputs equal the memo; puncture is Ok exactly the first time per handle history; after a puncture the neighbours and all registered tags are re-checked; importer and exporter are swept over all 256 tags at export time; public key bytes constant per lineage; final sweep of every handle. Non-trivial: a puncture followed by an export/import or clone or further eval; distinct by op sequence.",
    assumptions: vec!["keys come from OsRng", "4 fixed valid points stand for 'a given point'"],
    subs: vec![
      prop_sub("server_histories", 700, 20000, strat, oracle),
      crate::fuzzentry::fuzz_sub("fuzzbytes_server", "server", "C14", 150, 3000),
      crate::fuzzentry::artefact_sub("artefact_server", "server", "C14"),
    ],
  }
}
