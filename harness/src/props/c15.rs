//! C15 PPOPRF public keys, proofs, points and evaluations survive serialisation.

use crate::engine::*;
use crate::gens::*;
use crate::pp::*;
use crate::props::c09::{mutate_pk, PkMut};
use ppoprf::ppoprf::{Client, Evaluation, Point, ProofDLEQ, Server, ServerPublicKey, MAX_SERIALIZED_PK_SIZE, MAX_SERIALIZED_PROOF_SIZE};
use proptest::collection::vec;
use proptest::prelude::*;
use serde::{Deserialize, Serialize};
use serde_json::json;

#[derive(Clone, Debug, Serialize, Deserialize)]
pub struct RtCase {
  /// number of registered tags (0..=256)
  pub ntags: u16,
  pub tag_seed: u64,
  pub input: Hx,
  pub md_sel: u16,
}

fn tags_for(n: u16, seed: u64) -> Vec<u8> {
  // n distinct tags chosen by a seeded permutation of 0..=255
  let mut all: Vec<u8> = (0..=255u8).collect();
  let r = expand(seed, 256 * 2);
  for i in (1..256usize).rev() {
    let j = (u16::from_le_bytes([r[2 * i], r[2 * i + 1]]) as usize) % (i + 1);
    all.swap(i, j);
  }
  all.truncate((n as usize).min(256));
  all
}

fn rt_oracle(c: &RtCase, st: &mut Stats) -> Result<(), String> {
  let mds = tags_for(c.ntags, c.tag_seed);
  let server = new_server(&mds).map_err(|e| e.to_string())?;
  let pk = server.get_public_key();
  let b = pk.serialize_to_bincode().map_err(|e| format!("pk does not serialise: {e}"))?;
  st.evals(1);
  if b.len() > MAX_SERIALIZED_PK_SIZE {
    return Err(format!("a public key with {} tags serialises to {} bytes, above the load limit {}", mds.len(), b.len(), MAX_SERIALIZED_PK_SIZE));
  }
  // documented layout
  let (model, used) = PkModel::decode(&b).map_err(|e| format!("serialised key does not follow the documented form: {e}"))?;
  if used != b.len() || model.entries.len() != mds.len() || model.canonical() != model {
    return Err(format!("serialised key: {} entries for {} tags, {} of {} bytes used, sorted={}", model.entries.len(), mds.len(), used, b.len(), model.canonical() == model));
  }
  let back = ServerPublicKey::load_from_bincode(&b).map_err(|e| format!("pk with {} tags does not restore: {e}", mds.len()))?;
  if back != pk {
    return Err(format!("restored public key differs from the original ({} tags)", mds.len()));
  }
  if back.serialize_to_bincode().map_err(|e| e.to_string())? != b {
    return Err("restored public key re-serialises differently".into());
  }
  st.class(match mds.len() {
    0 => "tags=0",
    1 => "tags=1",
    2..=16 => "tags=2-16",
    17..=255 => "tags=17-255",
    _ => "tags=256",
  });
  if !mds.is_empty() {
    let md = pick_tag(&mds, c.md_sel);
    let (blinded, r) = Client::blind(&c.input);
    let ev = server.eval(&blinded, md, true).map_err(|e| e.to_string())?;
    // proof round trip
    let proof = ev.proof.as_ref().ok_or("no proof")?;
    let pb = proof.serialize_to_bincode().map_err(|e| e.to_string())?;
    if pb.len() != 64 || pb.len() > MAX_SERIALIZED_PROOF_SIZE {
      return Err(format!("proof serialises to {} bytes", pb.len()));
    }
    let proof_back = ProofDLEQ::load_from_bincode(&pb).map_err(|e| format!("proof does not restore: {e}"))?;
    if proof_back.serialize_to_bincode().map_err(|e| e.to_string())? != pb {
      return Err("restored proof re-serialises differently".into());
    }
    // evaluation and point through JSON
    let ej = serde_json::to_string(&ev).map_err(|e| e.to_string())?;
    let ev_back: Evaluation = serde_json::from_str(&ej).map_err(|e| format!("evaluation does not restore from JSON {ej}: {e}"))?;
    let ev_back2: Evaluation = serde_json::from_slice(ej.as_bytes()).map_err(|e| format!("evaluation does not restore from JSON bytes: {e}"))?;
    if serde_json::to_string(&ev_back).map_err(|e| e.to_string())? != ej || ev_back.output != ev.output || ev_back2.output != ev.output {
      return Err(format!("restored evaluation differs from the original: {ej}"));
    }
    let pj = serde_json::to_string(&blinded).map_err(|e| e.to_string())?;
    let p_back: Point = serde_json::from_str(&pj).map_err(|e| format!("point does not restore from JSON {pj}: {e}"))?;
    if p_back != blinded {
      return Err("restored point differs".into());
    }
    // interchangeable in verification, in every combination
    let ev_mixed = Evaluation { output: ev_back.output.clone(), proof: Some(proof_back) };
    for (pkn, pkv) in [("original key", &pk), ("restored key", &back)] {
      for (evn, evv) in [("original evaluation", &ev), ("JSON-restored evaluation", &ev_back), ("bincode-restored proof", &ev_mixed)] {
        for (pn, pv) in [("original point", &blinded), ("restored point", &p_back)] {
          st.evals(1);
          if !Client::verify(pkv, pv, evv, md) {
            return Err(format!("verification fails with {pkn}, {evn}, {pn} (tags {}, tag {md})", mds.len()));
          }
        }
      }
    }
    // unblinding the restored evaluation gives the same result
    let u1 = Client::unblind(&ev.output, &r);
    let u2 = Client::unblind(&ev_back.output, &r);
    if u1 != u2 {
      return Err("unblinding the restored evaluation gives another point".into());
    }
    // non-verifiable evaluations: proof stays absent
    let ev0 = server.eval(&blinded, md, false).map_err(|e| e.to_string())?;
    let j0 = serde_json::to_string(&ev0).map_err(|e| e.to_string())?;
    let b0: Evaluation = serde_json::from_str(&j0).map_err(|e| format!("non-verifiable evaluation does not restore: {e}"))?;
    if b0.proof.is_some() || b0.output != ev0.output {
      return Err("restored non-verifiable evaluation differs".into());
    }
    // "evaluations from arbitrary requests": if the server answers a request for the neutral
    // element (it may refuse), that evaluation and the request point survive their JSON form too
    let neutral = point_from(&[0u8; 32]);
    for verifiable in [false, true] {
      if let Ok(evn) = server.eval(&neutral, md, verifiable) {
        st.evals(1);
        let j = serde_json::to_string(&evn).map_err(|e| e.to_string())?;
        let back: Evaluation = serde_json::from_str(&j).map_err(|e| format!("the server's evaluation of the neutral element does not restore from its own JSON form {j}: {e}"))?;
        if back.output != evn.output || back.proof.is_some() != evn.proof.is_some() || serde_json::to_string(&back).map_err(|e| e.to_string())? != j {
          return Err(format!("restored evaluation of the neutral element differs from the original: {j}"));
        }
        let pj = serde_json::to_string(&neutral).map_err(|e| e.to_string())?;
        let pb: Point = serde_json::from_str(&pj).map_err(|e| format!("the neutral element does not restore from its own JSON form {pj}: {e}"))?;
        if pb != neutral {
          return Err("restored neutral element differs".into());
        }
        st.class("evaluation-of-the-neutral-element-round-tripped");
      }
    }
  }
  if mds.len() >= 2 {
    st.nontrivial(&(mds.len(), c.tag_seed, fp(&c.input.0)));
  }
  if st.want_sample() {
    st.sample(json!({"tags": mds.len(), "pk_bytes": b.len()}));
  }
  Ok(())
}

#[derive(Clone, Debug, Serialize, Deserialize)]
pub enum BytesCase {
  /// every strict prefix of a valid key encoding with n tags
  PkTruncations { ntags: u16, seed: u64 },
  /// every strict prefix of a valid proof
  ProofTruncations,
  /// lengths around the limits
  /// (delta >= 60000 is an absolute length instead: 2^16 and beyond)
  AroundLimit { which: u8, delta: i32, fill: u8 },
  /// mutated valid key
  PkMutated { ntags: u16, seed: u64, muts: Vec<PkMut> },
  /// entries out of order / repeated
  PkShuffled { ntags: u16, seed: u64, swaps: Vec<(u16, u16)>, dup: Option<(u16, u16)> },
  ProofBytes(Hx),
  Raw(Hx),
}

fn bytes_strat(_t: Tier) -> BoxedStrategy<BytesCase> {
  use crate::props::c09 as c9;
  let _ = c9::DECODERS_DUMMY;
  prop_oneof![
    2 => (0u16..12, any::<u64>()).prop_map(|(ntags, seed)| BytesCase::PkTruncations { ntags, seed }),
    1 => Just(BytesCase::ProofTruncations),
    3 => (0u8..2, prop_oneof![6 => -2i32..3, 2 => prop_oneof![Just(65536i32), Just(65537), Just(65536 + 64), Just(65536 + 8488), Just(65536 + 16384), Just(131072 + 64)]], any::<u8>()).prop_map(|(which, delta, fill)| BytesCase::AroundLimit { which, delta, fill }),
    4 => (0u16..40, any::<u64>(), vec(pk_mut_strategy(), 1..3)).prop_map(|(ntags, seed, muts)| BytesCase::PkMutated { ntags, seed, muts }),
    3 => (2u16..20, any::<u64>(), vec((any::<u16>(), any::<u16>()), 0..4), proptest::option::of((any::<u16>(), any::<u16>()))).prop_map(|(ntags, seed, swaps, dup)| BytesCase::PkShuffled { ntags, seed, swaps, dup }),
    3 => prop_oneof![uniform_bytes(64, 64), uniform_bytes(0, 70), Just(Hx(vec![0xFF; 64])), Just(Hx(vec![0xED; 64]))].prop_map(BytesCase::ProofBytes),
    2 => bytes(600).prop_map(BytesCase::Raw),
  ]
  .boxed()
}

fn pk_mut_strategy() -> BoxedStrategy<PkMut> {
  prop_oneof![
    3 => any::<u16>().prop_map(PkMut::Prefix),
    3 => prop_oneof![Just(0u64), Just(1u64), Just(255), Just(256), Just(257), Just(u64::MAX), any::<u64>()].prop_map(PkMut::Count),
    3 => (any::<u16>(), point_spec()).prop_map(|(which, spec)| PkMut::Point { which, spec }),
    2 => (any::<u16>(), any::<u8>()).prop_map(|(which, val)| PkMut::Tag { which, val }),
    1 => small_bytes(40).prop_map(PkMut::Append),
  ]
  .boxed()
}

/// the decoder on `b` against the independent reader
fn judge_pk(b: &[u8], st: &mut Stats) -> Result<(), String> {
  st.evals(1);
  let got = no_panic(|| ServerPublicKey::load_from_bincode(b)).map_err(|p| format!("load_from_bincode panicked: {p}"))?;
  let model = PkModel::decode(b);
  if b.len() > MAX_SERIALIZED_PK_SIZE {
    if got.is_ok() {
      return Err(format!("{} bytes (> limit {}) were accepted as a public key", b.len(), MAX_SERIALIZED_PK_SIZE));
    }
    st.class("pk:over-limit-refused");
    st.nontrivial(&("over", b.len()));
    return Ok(());
  }
  match (got, model) {
    (Ok(v), Ok((m, _used))) => {
      // the value must be exactly what the bytes say: never partially initialised
      let re = v.serialize_to_bincode().map_err(|e| e.to_string())?;
      let want = m.canonical().encode();
      if re != want {
        return Err(format!(
          "a public key decoded from {} holds something else than the bytes say: re-serialises as {} but the documented reading gives {}",
          hex::encode(b),
          hex::encode(&re),
          hex::encode(&want)
        ));
      }
      st.class("pk:accepted");
    }
    (Ok(v), Err(e)) => {
      return Err(format!(
        "bytes that do not hold a complete public key ({e}) were accepted: {} -> {:?}",
        hex::encode(b),
        v.serialize_to_bincode().map(hex::encode)
      ));
    }
    (Err(_), Ok((m, used))) => {
      // a complete encoding was refused.  A stricter decoder may do that for keys an honest
      // server never produces (unsorted / repeated tags, points that do not decode, trailing
      // bytes); refusing a canonical key whose points all decode is a defect.
      let honest_shape = m.canonical() == m && used == b.len() && decompress(&m.base).is_some() && m.entries.iter().all(|(_, p)| decompress(p).is_some());
      if honest_shape {
        return Err(format!("a complete, canonical public key encoding with valid points was refused: {}", hex::encode(b)));
      }
      st.class("pk:non-canonical-refused");
    }
    (Err(_), Err(_)) => {
      st.class("pk:refused");
      st.nontrivial(&("pk-bad", b));
    }
  }
  Ok(())
}

pub fn judge_proof(b: &[u8], st: &mut Stats) -> Result<(), String> {
  st.evals(1);
  let got = no_panic(|| ProofDLEQ::load_from_bincode(b)).map_err(|p| format!("proof load panicked: {p}"))?;
  if b.len() > MAX_SERIALIZED_PROOF_SIZE {
    if got.is_ok() {
      return Err(format!("{} bytes (> limit {}) were accepted as a proof", b.len(), MAX_SERIALIZED_PROOF_SIZE));
    }
    st.class("proof:over-limit-refused");
    st.nontrivial(&("proof-over", b.len()));
    return Ok(());
  }
  let canon = b.len() >= 64 && {
    let mut c = [0u8; 32];
    let mut s = [0u8; 32];
    c.copy_from_slice(&b[..32]);
    s.copy_from_slice(&b[32..64]);
    scalar_canonical(&c).is_some() && scalar_canonical(&s).is_some()
  };
  match got {
    Ok(p) => {
      if !canon {
        return Err(format!("bytes that are not two canonical scalars were accepted as a proof: {}", hex::encode(b)));
      }
      let re = p.serialize_to_bincode().map_err(|e| e.to_string())?;
      if re[..] != b[..64] {
        return Err(format!("proof decoded from {} re-serialises as {}", hex::encode(b), hex::encode(re)));
      }
      st.class("proof:accepted");
    }
    Err(_) => {
      if canon && b.len() == 64 {
        return Err(format!("two canonical scalars were refused as a proof: {}", hex::encode(b)));
      }
      st.class("proof:refused");
      st.nontrivial(&("proof-bad", b));
    }
  }
  Ok(())
}

fn bytes_oracle(c: &BytesCase, st: &mut Stats) -> Result<(), String> {
  let honest_pk = |n: u16, seed: u64| -> Result<Vec<u8>, String> {
    let s = Server::new(tags_for(n, seed)).map_err(|e| e.to_string())?;
    s.get_public_key().serialize_to_bincode().map_err(|e| e.to_string())
  };
  match c {
    BytesCase::PkTruncations { ntags, seed } => {
      let b = honest_pk(*ntags, *seed)?;
      for k in 0..b.len() {
        st.evals(1);
        if ServerPublicKey::load_from_bincode(&b[..k]).is_ok() {
          return Err(format!("a strict prefix ({k} of {} bytes) of a valid public key was accepted", b.len()));
        }
        st.nontrivial(&("pk-trunc", *ntags, k));
      }
      judge_pk(&b, st)?;
      st.class("pk-truncations");
    }
    BytesCase::ProofTruncations => {
      let s = Server::new(vec![1]).map_err(|e| e.to_string())?;
      let (bl, _) = Client::blind(b"x");
      let ev = s.eval(&bl, 1, true).map_err(|e| e.to_string())?;
      let b = ev.proof.unwrap().serialize_to_bincode().map_err(|e| e.to_string())?;
      for k in 0..b.len() {
        st.evals(1);
        if ProofDLEQ::load_from_bincode(&b[..k]).is_ok() {
          return Err(format!("a strict prefix ({k} bytes) of a valid proof was accepted"));
        }
        st.nontrivial(&("proof-trunc", k, fp(&b)));
      }
      judge_proof(&b, st)?;
    }
    BytesCase::AroundLimit { which, delta, fill } => {
      if *which == 0 {
        // a maximal valid key: 256 tags = 8488 bytes < limit; pad a valid key up to the limit +- delta
        let mut b = honest_pk(256, *fill as u64)?;
        let target = if *delta >= 60000 { *delta as usize } else { (MAX_SERIALIZED_PK_SIZE as i64 + *delta as i64) as usize };
        b.resize(target, *fill);
        judge_pk_with_trailing(&b, st)?;
        // and a count field that promises more than the limit allows
        let mut big = vec![*fill; target];
        big[32..40].copy_from_slice(&496u64.to_le_bytes());
        judge_pk_with_trailing(&big, st)?;
        st.class("around-pk-limit");
      } else {
        let target = if *delta >= 60000 { *delta as usize } else { (MAX_SERIALIZED_PROOF_SIZE as i64 + *delta as i64) as usize };
        let s = Server::new(vec![1]).map_err(|e| e.to_string())?;
        let (bl, _) = Client::blind(b"x");
        let ev = s.eval(&bl, 1, true).map_err(|e| e.to_string())?;
        let mut b = ev.proof.unwrap().serialize_to_bincode().map_err(|e| e.to_string())?;
        b.resize(target, *fill);
        if target <= 64 {
          judge_proof(&b, st)?;
        } else {
          st.evals(1);
          if ProofDLEQ::load_from_bincode(&b).is_ok() {
            return Err(format!("{target} bytes (> limit) accepted as a proof"));
          }
          st.nontrivial(&("proof-limit", target));
        }
        st.class("around-proof-limit");
      }
    }
    BytesCase::PkMutated { ntags, seed, muts } => {
      let b = mutate_pk(&honest_pk(*ntags, *seed)?, muts);
      judge_pk_with_trailing(&b, st)?;
    }
    BytesCase::PkShuffled { ntags, seed, swaps, dup } => {
      let b = honest_pk(*ntags, *seed)?;
      let (mut m, _) = PkModel::decode(&b)?;
      let n = m.entries.len();
      for (a, b2) in swaps {
        m.entries.swap(idx(*a, n), idx(*b2, n));
      }
      if let Some((src, at)) = dup {
        // repeat a tag with ANOTHER point: the last entry wins in a map
        let (t, _) = m.entries[idx(*src, n)];
        let p = valid_point(*seed ^ 0xD0).compress().to_bytes();
        let pos = idx(*at, m.entries.len() + 1);
        m.entries.insert(pos, (t, p));
        st.class("pk-repeated-tag");
      }
      judge_pk(&m.encode(), st)?;
      st.class("pk-unsorted-entries");
    }
    BytesCase::ProofBytes(h) => judge_proof(h, st)?,
    BytesCase::Raw(h) => {
      judge_pk_with_trailing(h, st)?;
      judge_proof_lenient(h, st)?;
    }
  }
  Ok(())
}

/// like judge_pk but silent on bincode's trailing-bytes policy (not fixed by the property)
pub fn judge_pk_with_trailing(b: &[u8], st: &mut Stats) -> Result<(), String> {
  match PkModel::decode(b) {
    Ok((_, used)) if used < b.len() && b.len() <= MAX_SERIALIZED_PK_SIZE => {
      st.evals(1);
      let got = no_panic(|| ServerPublicKey::load_from_bincode(b)).map_err(|p| format!("load panicked: {p}"))?;
      if let Ok(v) = got {
        let (m, _) = PkModel::decode(b).unwrap();
        let re = v.serialize_to_bincode().map_err(|e| e.to_string())?;
        if re != m.canonical().encode() {
          return Err(format!("key decoded from bytes with trailing data differs from what the leading bytes say: {}", hex::encode(b)));
        }
        st.class("pk:trailing-accepted");
      } else {
        st.class("pk:trailing-refused");
      }
      Ok(())
    }
    _ => judge_pk(b, st),
  }
}

pub fn judge_proof_lenient(b: &[u8], st: &mut Stats) -> Result<(), String> {
  if b.len() > 64 && b.len() <= MAX_SERIALIZED_PROOF_SIZE {
    return Ok(());
  }
  judge_proof(b, st)
}

#[derive(Clone, Debug, Serialize, Deserialize)]
pub struct JsonCase {
  /// payload length for the base64 field
  pub len: u8,
  pub fill: u64,
  pub broken: u8,
}

fn json_strat(_t: Tier) -> BoxedStrategy<JsonCase> {
  (prop_oneof![Just(31u8), Just(32u8), Just(33u8), 0u8..70], any::<u64>(), 0u8..9).prop_map(|(len, fill, broken)| JsonCase { len, fill, broken }).boxed()
}

/// JSON texts with broken base64, 31/33-byte payloads, wrong types: Err, never a partial value
fn json_oracle(c: &JsonCase, st: &mut Stats) -> Result<(), String> {
  use base64::{engine::Engine as _, prelude::BASE64_STANDARD};
  let payload = expand(c.fill, c.len as usize);
  let mut b64 = BASE64_STANDARD.encode(&payload);
  match c.broken {
    1 => b64.push('!'),
    2 => {
      b64.pop();
    }
    3 => b64 = b64.replace('A', "-"),
    _ => {}
  }
  let text = match c.broken {
    // objects that do not carry an output at all
    6 => "{}".to_string(),
    7 => "{\"proof\":null}".to_string(),
    8 => format!("{{\"error\":\"{b64}\"}}"),
    4 => format!("{{\"output\":{},\"proof\":null}}", c.len),
    5 => format!("{{\"output\":[{}],\"proof\":null}}", payload.iter().map(|x| x.to_string()).collect::<Vec<_>>().join(",")),
    _ => format!("{{\"output\":\"{b64}\",\"proof\":null}}"),
  };
  st.evals(1);
  let got = no_panic(|| serde_json::from_str::<Evaluation>(&text)).map_err(|p| format!("JSON decode panicked: {p}"))?;
  if c.broken >= 6 {
    st.class("json:no-output-member");
  }
  let well_formed = c.len == 32 && (c.broken == 0 || c.broken == 3 && !BASE64_STANDARD.encode(&payload).contains('A'));
  // a complete 32-number array in place of the base64 string: accepting it is a choice, not a partial value
  let either = c.len == 32 && c.broken == 5;
  match got {
    Ok(ev) => {
      if !well_formed && !either {
        return Err(format!("malformed evaluation text accepted: {text}"));
      }
      if ev.output.as_bytes()[..] != payload[..] || ev.proof.is_some() {
        return Err(format!("evaluation decoded from {text} does not hold the 32 bytes of its output field"));
      }
      st.class("json:accepted");
    }
    Err(_) => {
      if well_formed {
        return Err(format!("well-formed evaluation text refused: {text}"));
      }
      st.class("json:refused");
      st.nontrivial(&text);
    }
  }
  Ok(())
}

#[derive(Clone, Debug, Serialize, Deserialize)]
pub struct PointJsonCase {
  /// number of array elements
  pub len: u8,
  pub fill: u64,
  /// 0 = array of in-range numbers, 1 = one element out of range (256), 2 = one element negative,
  /// 3 = one element a string, 4 = base64 string of `len` bytes, 5 = nested in an array-of-points request body
  pub form: u8,
  pub at: u16,
}

fn point_json_strat(_t: Tier) -> BoxedStrategy<PointJsonCase> {
  (prop_oneof![3 => Just(32u8), 2 => Just(31u8), 1 => Just(33u8), 1 => Just(0u8), 1 => Just(1u8), 2 => 0u8..70], any::<u64>(), 0u8..6, any::<u16>())
    .prop_map(|(len, fill, form, at)| PointJsonCase { len, fill, form, at })
    .boxed()
}

/// A point in JSON is its 32 bytes.  A text that does not hold exactly 32 in-range bytes must not
/// come back as a point (short arrays would be partially initialised values).
fn point_json_oracle(c: &PointJsonCase, st: &mut Stats) -> Result<(), String> {
  use base64::{engine::Engine as _, prelude::BASE64_STANDARD};
  let payload = expand(c.fill, c.len as usize);
  let mut items: Vec<String> = payload.iter().map(|x| x.to_string()).collect();
  let pos = if items.is_empty() { 0 } else { idx(c.at, items.len()) };
  let mut damaged = false;
  match c.form {
    1 if !items.is_empty() => {
      items[pos] = "256".into();
      damaged = true;
    }
    2 if !items.is_empty() => {
      items[pos] = "-1".into();
      damaged = true;
    }
    3 if !items.is_empty() => {
      items[pos] = "\"7\"".into();
      damaged = true;
    }
    _ => {}
  }
  let array = format!("[{}]", items.join(","));
  let text = if c.form == 4 { format!("\"{}\"", BASE64_STANDARD.encode(&payload)) } else { array };
  st.evals(1);
  let got: Option<Point> = if c.form == 5 {
    // a request body as the example server reads it: a list of points
    let body = format!("[{text}]");
    match no_panic(|| serde_json::from_str::<Vec<Point>>(&body)).map_err(|p| format!("JSON decode panicked: {p}"))? {
      Ok(mut v) if v.len() == 1 => v.pop(),
      Ok(v) => return Err(format!("a list holding one point text decoded to {} points: {body}", v.len())),
      Err(_) => None,
    }
  } else {
    no_panic(|| serde_json::from_str::<Point>(&text)).map_err(|p| format!("JSON decode panicked: {p}"))?.ok()
  };
  // the array of 32 numbers must be accepted if that is the form the implementation itself writes
  let writes_arrays = serde_json::to_string(&point_from(&[7u8; 32])).map(|t| t.starts_with('[')).unwrap_or(false);
  let complete = c.len == 32 && !damaged && writes_arrays;
  match (&got, c.form) {
    (Some(p), 4) => {
      // a base64 string instead of the array: accepting it is a choice; a partial value is not
      if c.len != 32 || p.as_bytes()[..] != payload[..] {
        return Err(format!("point text {text} was accepted and does not hold exactly the 32 bytes it spells"));
      }
      st.class("point-json:string-form-accepted");
    }
    (None, 4) => st.class("point-json:string-form-refused"),
    (Some(p), _) => {
      if c.len < 32 || damaged {
        return Err(format!(
          "point text with {} elements{} was accepted as the point {}: a value that the text does not spell out",
          c.len,
          if damaged { " (one of them not a byte)" } else { "" },
          hex::encode(p.as_bytes())
        ));
      }
      if p.as_bytes()[..] != payload[..32] {
        return Err(format!("point decoded from {text} does not hold the bytes of the text"));
      }
      st.class(if c.len == 32 { "point-json:accepted" } else { "point-json:long-array-accepted" });
    }
    (None, _) => {
      if complete {
        return Err(format!("well-formed point text refused: {text}"));
      }
      st.class("point-json:refused");
      st.nontrivial(&text);
    }
  }
  Ok(())
}

pub fn property() -> Property {
  Property {
    id: "C15",
    level: "exploration",
    rule: "round trips: public keys for tag-set sizes 0..256 (all 257 sizes enumerated in thorough, a spread in quick) with proofs / evaluations / points from generated requests: restored == original, re-serialisation identical, documented layout (32-byte base, u64 count, sorted (u8, point) entries; proof = c || s), and all 12 combinations of {original, restored} key x evaluation x point verify. bytes: every strict prefix of valid key and proof encodings is refused; lengths limit-2..limit+2 for both limits and lengths of 2^16 and beyond that equal an admissible length modulo 2^16; mutated keys (count field values, undecodable points, tags, appended bytes), unsorted and repeated-tag entry lists, arbitrary 64-byte proofs, raw strings - an accepted value must equal what an independent reader of the documented form extracts from the same bytes (a repeated tag takes its last entry), bytes that do not hold a complete value must be refused. JSON: 31/32/33-byte and other payloads, broken base64, wrong types, objects without an output member for evaluations; point texts as arrays of 0..70 numbers (one possibly not a byte), as strings, alone and inside a list of points - only a text that spells exactly 32 bytes may come back as a point. Non-trivial: tag-set size >= 2, a string within 2 bytes of a limit, a truncation or any refused string.",
    assumptions: vec![
      "bincode's tolerance of trailing bytes after a complete value is not fixed by the property and is not asserted",
      "Evaluation is deserialised with serde_json::from_str / from_slice, as every caller in the repository does (the base64 adapter borrows the string)",
    ],
    subs: vec![
      prop_sub(
        "roundtrip",
        300,
        6000,
        |t| {
          let n = match t {
            Tier::Quick => prop_oneof![Just(0u16), Just(1u16), Just(2u16), Just(255u16), Just(256u16), 0u16..257].boxed(),
            Tier::Thorough => (0u16..257).boxed(),
          };
          (n, any::<u64>(), bytes(200), any::<u16>()).prop_map(|(ntags, tag_seed, input, md_sel)| RtCase { ntags, tag_seed, input, md_sel }).boxed()
        },
        rt_oracle,
      ),
      enum_sub(
        "roundtrip_all_sizes",
        |t| t.pick(33, 257),
        |t, i| RtCase { ntags: (if t == Tier::Quick { i * 8 } else { i }) as u16, tag_seed: i * 7 + 1, input: Hx(vec![i as u8; (i % 40) as usize]), md_sel: (i * 977) as u16 },
        rt_oracle,
      ),
      prop_sub("bytes", 4000, 100_000, bytes_strat, bytes_oracle),
      prop_sub("json", 4000, 60_000, json_strat, json_oracle),
      prop_sub("point_json", 4000, 60_000, point_json_strat, point_json_oracle),
      crate::fuzzentry::fuzz_sub("fuzzbytes_ppoprf", "ppoprf", "C15", 4000, 80000),
      crate::fuzzentry::artefact_sub("artefact_ppoprf", "ppoprf", "C15"),
    ],
  }
}
