//! C16 ADSS sharing is deterministic up to the share point; recovery rebuilds it.

use crate::bigmodel::*;
use crate::engine::*;
use crate::gens::*;
use crate::layout;
use num_bigint::BigUint;
use proptest::prelude::*;
use serde::{Deserialize, Serialize};
use serde_json::json;
use strobe_rs::{SecParam, Strobe};

#[derive(Clone, Debug, Serialize, Deserialize)]
pub struct Case {
  pub t: u32,
  pub msg: Hx,
  pub coins: Hx,
  /// independent Commune::new(..).share() call groups
  pub groups: u8,
  pub extra: u8,
  pub sel: SelSpec,
  pub mix: SelSpec,
  /// custom transcript: (label, absorbed data)
  pub transcript: Option<(Hx, Hx)>,
  /// the custom transcript's security parameter is 256 instead of 128 bits
  #[serde(default)]
  pub sec256: bool,
  /// further operations on the custom transcript: (kind: ad / meta_ad / key / prf / send_clr, data)
  #[serde(default)]
  pub tr_ops: Vec<(u8, Hx)>,
}

fn strat(tier: Tier) -> BoxedStrategy<Case> {
  let max = tier.pick(3000, 100_000);
  (
    prop_oneof![10 => Just(0u32), 20 => Just(1u32), 30 => Just(2u32), 80 => 3u32..17, 30 => 17u32..65, 10 => 65u32..129, 2 => 129u32..301],
    bytes(max),
    bytes(max.min(20_000)),
    1u8..7,
    0u8..4,
    sel_spec(),
    sel_spec(),
    (
      proptest::option::weighted(0.2, (prop_oneof![3 => small_bytes(12), 1 => Just(Hx(b"adss".to_vec()))], small_bytes(40))),
      proptest::bool::weighted(0.4),
      proptest::collection::vec((0u8..5, small_bytes(20)), 0..4),
    ),
  )
    .prop_map(|(t, msg, coins, groups, extra, sel, mix, (transcript, sec256, tr_ops))| Case {
      sec256,
      tr_ops,
      t,
      msg,
      coins,
      groups,
      extra,
      sel,
      mix,
      transcript,
    })
    .boxed()
}

fn commune(c: &Case, tr: Option<Strobe>) -> adss::Commune {
  adss::Commune::new(c.t, c.msg.0.clone(), c.coins.0.clone(), tr)
}

fn outside_s(b: &[u8]) -> Result<(Vec<u8>, (BigUint, Vec<BigUint>)), String> {
  let f = layout::share_fields(b).ok_or_else(|| format!("share layout: {}", hex::encode(b)))?;
  let mut rest = b[..f.len_s.start].to_vec();
  rest.extend_from_slice(&b[f.s.end..]);
  Ok((rest, layout::share_point(b).ok_or("share point")?))
}

fn oracle(c: &Case, st: &mut Stats) -> Result<(), String> {
  let t = c.t as usize;
  let n = if c.sel.extra % 61 == 7 && (1..=8).contains(&t) && c.msg.len() <= 400 {
    st.class("large-collection(255..2049 shares)");
    t + [255usize, 256, 257, 1023, 1024, 1025, 2049][(c.sel.extra / 61) as usize % 7]
  } else {
    t.max(1) + c.extra as usize
  };
  st.class(match c.t {
    0 => "t=0",
    1 => "t=1",
    2 => "t=2",
    3..=16 => "t=3-16",
    17..=128 => "t=17-128",
    _ => "t>=129",
  });
  st.class(match c.msg.len() {
    0 => "msg=empty",
    165..=167 | 331..=333 => "msg=block-boundary",
    _ => "msg=other",
  });
  // custom transcript: shares made under it must be rejected by recover (which assumes none)
  if let Some((label, data)) = &c.transcript {
    let mut s = Strobe::new(&label.0, if c.sec256 { SecParam::B256 } else { SecParam::B128 });
    // (label "adss" at 128 bits with nothing absorbed would be the default transcript itself)
    let same_as_default = label.0 == b"adss" && !c.sec256 && data.is_empty() && c.tr_ops.is_empty();
    if !data.is_empty() || same_as_default {
      s.ad(&data.0, false);
    }
    for (kind, d) in &c.tr_ops {
      match kind % 5 {
        0 => s.ad(&d.0, false),
        1 => s.meta_ad(&d.0, false),
        2 => s.key(&d.0, false),
        3 => {
          let mut buf = d.0.clone();
          s.prf(&mut buf, false);
        }
        _ => s.send_clr(&d.0, false),
      }
    }
    st.class(if c.sec256 { "custom-transcript-256-bit" } else { "custom-transcript-128-bit" });
    if label.0 == b"adss" {
      st.class("custom-transcript-with-the-default-label");
    }
    let shares: Vec<adss::Share> = (0..n)
      .map(|_| commune(c, Some(s.clone())).share().map_err(|e| e.to_string()))
      .collect::<Result<_, _>>()?;
    st.evals(1);
    if let Ok(r) = adss::recover(&shares) {
      return Err(format!(
        "shares created under a custom transcript (label {}, data {}) were accepted by recover, message {}",
        hex::encode(&label.0),
        hex::encode(&data.0),
        hx(&r.get_message())
      ));
    }
    st.class("custom-transcript-rejected");
    st.nontrivial(&("transcript", c.t, &label.0, &data.0, fp(&c.msg.0)));
    // and they differ from default-transcript shares in the authenticated part
    let d = commune(c, None).share().map_err(|e| e.to_string())?.to_bytes();
    let (rest_d, _) = outside_s(&d)?;
    let (rest_c, _) = outside_s(&shares[0].to_bytes())?;
    if rest_d == rest_c {
      return Err("a custom transcript does not change anything in the share outside its evaluation point".into());
    }
    return Ok(());
  }
  // independent invocations
  let groups = c.groups.max(1) as usize;
  let mut shares: Vec<adss::Share> = Vec::new();
  for i in 0..n {
    // group g = i % groups uses its own Commune object; objects are rebuilt per call
    let _g = i % groups;
    shares.push(commune(c, None).share().map_err(|e| format!("share failed: {e}"))?);
  }
  let enc: Vec<Vec<u8>> = shares.iter().map(|s| s.to_bytes()).collect();
  // everything except the evaluation point is a function of (t, M, R)
  let (rest0, _) = outside_s(&enc[0])?;
  let mut pts = Vec::new();
  for e in &enc {
    let (rest, pt) = outside_s(e)?;
    if rest != rest0 {
      return Err(format!(
        "two shares of one sharing differ outside the S field: {} vs {}",
        hex::encode(&enc[0]),
        hex::encode(e)
      ));
    }
    pts.push(pt);
  }
  st.evals(n as u64);
  if c.t == 0 {
    // threshold 0 never recovers
    for k in [1usize, n] {
      if adss::recover(&shares[..k.min(n)]).is_ok() {
        return Err(format!("threshold 0 recovered from {k} shares"));
      }
    }
    st.nontrivial(&("t0", fp(&c.msg.0)));
    return Ok(());
  }
  // the points lie on one polynomial per element (bigint interpolation of t predicts the rest)
  let xs: std::collections::BTreeSet<Vec<u8>> = pts.iter().map(|(x, _)| x.to_bytes_le()).collect();
  if xs.len() != n {
    return Err("independent share() calls produced the same evaluation point".into());
  }
  let k = pts[0].1.len();
  if n > t && t <= 40 {
    for j in 0..k {
      let p_t: Vec<(BigUint, BigUint)> = pts[..t].iter().map(|(x, y)| (x.clone(), y[j].clone())).collect();
      let co = interpolate_coeffs(&p_t);
      for (x, y) in &pts[t..] {
        if eval_lo_to_hi(&co, x) != y[j] {
          return Err(format!("shares of independent invocations do not lie on one polynomial of degree t-1 (t={t})"));
        }
      }
    }
    st.class("polynomial-consistency-checked");
  }
  // any t distinct recover exactly the message
  let sel = c.sel.build(n, t);
  let chosen: Vec<adss::Share> = sel.iter().map(|i| shares[*i].clone()).collect();
  // the collection arrives as an iterator of a generated shape (recover takes any IntoIterator)
  let ishape = (c.sel.rot >> 3) as u8;
  st.class(&format!("iterator={}", ITER_SHAPES[ishape as usize % ITER_SHAPES.len()]));
  let rec = adss::recover(shaped(ishape, &chosen)).map_err(|e| {
    format!("recover failed on {} distinct shares (t={t}, selection {:?}, handed over as {}): {e}", t, sel, ITER_SHAPES[ishape as usize % ITER_SHAPES.len()])
  })?;
  if rec.get_message() != c.msg.0 {
    return Err(format!("recovered message {} differs from the shared one {}", hx(&rec.get_message()), hx(&c.msg)));
  }
  // fewer than t distinct do not
  if t >= 2 {
    let mut below = c.mix.clone();
    below.extra = 0;
    let s2 = below.build(n, t - 1);
    let ch: Vec<adss::Share> = s2.iter().map(|i| shares[*i].clone()).collect();
    if adss::recover(&ch).is_ok() {
      return Err(format!("recover accepted {} distinct shares under threshold {t}", t - 1));
    }
  }
  // the recovered sharing is the original one: re-share and mix
  let mut again: Vec<adss::Share> = Vec::new();
  for _ in 0..n {
    again.push(rec.clone().share().map_err(|e| format!("re-share failed: {e}"))?);
  }
  let (rest_again, _) = outside_s(&again[0].to_bytes())?;
  if rest_again != rest0 {
    return Err("shares produced from the recovered sharing differ from the original ones outside S".into());
  }
  let mut union: Vec<adss::Share> = Vec::new();
  for i in 0..n {
    union.push(shares[i].clone());
    union.push(again[i].clone());
  }
  let msel = c.mix.build(union.len(), t);
  let mixed: Vec<adss::Share> = msel.iter().map(|i| union[*i].clone()).collect();
  let olds = msel.iter().filter(|i| *i % 2 == 0).count();
  st.class(if olds > 0 && olds < msel.len() { "reshare-mix=old+new" } else { "reshare-mix=one-kind" });
  let rec2 = adss::recover(shaped((c.mix.rot >> 3) as u8, &mixed)).map_err(|e| format!("mixed old/new shares do not recover (t={t}, selection {:?}): {e}", msel))?;
  if rec2.get_message() != c.msg.0 {
    return Err("mixed old/new shares recover a different message".into());
  }
  st.evals(3);
  let boundary_len = matches!(c.msg.len(), 0 | 165..=167 | 331..=333) || matches!(c.coins.len(), 0 | 165..=167);
  if (t >= 2 && olds > 0 && olds < msel.len()) || boundary_len {
    st.nontrivial(&(c.t, c.msg.len(), c.coins.len(), fp(&c.msg.0), &msel));
  }
  if st.want_sample() {
    st.sample(json!({"t": c.t, "msg_len": c.msg.len(), "coins_len": c.coins.len(), "n": n, "selection": sel, "mixed_selection": msel}));
  }
  Ok(())
}

pub fn property() -> Property {
  Property {
    id: "C16",
    level: "exploration",
    rule: "generated (t in 0..128, message and coins of length 0 / block boundaries / up to 3 kB quick, 100 kB thorough, arbitrary content, n = t + 0..3 independent Commune::new(..).share() calls, optional custom Strobe transcript: generated label (sometimes the default one), 128- or 256-bit security parameter, absorbed data and a script of further ad / meta_ad / key / prf / send_clr operations). Oracle: shares byte-identical outside S; points on one polynomial (bigint interpolation of t predicts the others); a generated selection of t distinct recovers exactly the message, t-1 distinct do not; the recovered Commune re-shares to shares identical outside S and mixed old/new selections recover; t = 0 never recovers; custom-transcript shares are rejected. Non-trivial: t >= 2 with an old+new mix, or an empty / block-boundary length, or a custom transcript.",
    assumptions: vec!["share points come from OsRng"],
    subs: vec![prop_sub("determinism_and_reshare", 3000, 60000, strat, oracle)],
  }
}
