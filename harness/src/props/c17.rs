//! C17 The WASM string API is a faithful wrapper of the core protocol.

use crate::engine::*;
use crate::gens::*;
use crate::layout;
use crate::starx;
use base64::{engine::Engine as _, prelude::BASE64_STANDARD};
use proptest::collection::vec;
use proptest::prelude::*;
use serde::{Deserialize, Serialize};
use serde_json::json;

#[derive(Clone, Debug, Serialize, Deserialize)]
pub struct Case {
  pub m: Hx,
  pub t: u32,
  pub epoch: String,
  /// number of shares handed to group_shares relative to t: t + delta
  pub delta: i8,
  pub dups: Vec<(u16, u16)>,
  pub other_epoch: String,
  pub other_m: Hx,
  pub swaps: Vec<(u16, u16)>,
  /// before each grouping call, make a call that fails while decoding: 0 = none, 1 = valid lines then an
  /// empty last line, 2 = valid lines (another measurement) then a garbage line, 3 = garbage only
  #[serde(default)]
  pub poison: u8,
  /// a large collection: this many distinct shares instead of t + delta (sizes around powers of two)
  #[serde(default)]
  pub big_n: Option<u16>,
}

fn epoch_string() -> BoxedStrategy<String> {
  prop_oneof![
    2 => Just(String::new()),
    3 => "[a-z0-9]{1,8}".prop_map(|s| s),
    3 => vec(prop_oneof![Just('é'), Just('\u{1F600}'), Just('"'), Just('\\'), Just('\n'), Just('a'), Just(' '), Just('\0'), Just('日')], 1..8)
      .prop_map(|v| v.into_iter().collect::<String>()),
    // long epochs, incl. lengths at and around 2^6, 2^7, 2^8 (S196: epoch cut to 64 bytes on the grouping side only)
    2 => (prop_oneof![Just(63usize), Just(64), Just(65), Just(127), Just(128), Just(129), Just(255), Just(256), Just(257), 9usize..600], "[a-z0-9é]{1,8}")
      .prop_map(|(n, seed)| seed.chars().cycle().take(n).collect::<String>()),
  ]
  .boxed()
}

fn strat(_t: Tier) -> BoxedStrategy<Case> {
  (
    bytes(300),
    // incl. thresholds whose low byte sits at a byte / base64-sextet boundary
    prop_oneof![10 => Just(0u32), 20 => Just(1u32), 60 => 2u32..9, 20 => 9u32..41, 2 => prop_oneof![Just(62u32), Just(63u32), Just(64u32), Just(127u32), Just(128u32), Just(248u32), Just(252u32), Just(255u32), Just(256u32)]],
    epoch_string(),
    -2i8..4,
    vec((any::<u16>(), any::<u16>()), 0..3),
    epoch_string(),
    bytes(60),
    vec((any::<u16>(), any::<u16>()), 0..5),
    prop_oneof![2 => Just(0u8), 1 => Just(1u8), 1 => Just(2u8), 1 => Just(3u8)],
    proptest::option::weighted(0.02, prop_oneof![Just(255u16), Just(256u16), Just(257u16), Just(1023u16), Just(1024u16), Just(1025u16), Just(1026u16), Just(2049u16), Just(4097u16)]),
  )
    .prop_map(|(m, t, epoch, delta, dups, other_epoch, other_m, swaps, poison, big_n)| Case {
      big_n,
      m,
      t,
      epoch,
      delta,
      dups,
      other_epoch,
      other_m,
      swaps,
      poison,
    })
    .boxed()
}

struct Created {
  key: Vec<u8>,
  share_b64: String,
  share: Vec<u8>,
  tag: Vec<u8>,
}

fn create(m: &[u8], t: u32, epoch: &str) -> Result<Created, String> {
  let out = star_wasm::create_share(m, t, epoch);
  let v: serde_json::Value = serde_json::from_str(&out).map_err(|e| format!("create_share output is not JSON ({e}): {out:?}"))?;
  let o = v.as_object().ok_or_else(|| format!("create_share output is not an object: {out}"))?;
  // the three members the statement names must be there; further members are not forbidden
  let keys: Vec<&str> = o.keys().map(|k| k.as_str()).collect();
  for want in ["key", "share", "tag"] {
    if !keys.contains(&want) {
      return Err(format!("create_share output has members {keys:?}, {want} is missing"));
    }
  }
  let field = |k: &str| -> Result<(String, Vec<u8>), String> {
    let s = o[k].as_str().ok_or_else(|| format!("field {k} is not a string"))?;
    let b = BASE64_STANDARD.decode(s).map_err(|e| format!("field {k} is not base64: {e}"))?;
    Ok((s.to_string(), b))
  };
  let (_, key) = field("key")?;
  let (share_b64, share) = field("share")?;
  let (_, tag) = field("tag")?;
  Ok(Created { key, share_b64, share, tag })
}

fn oracle(c: &Case, st: &mut Stats) -> Result<(), String> {
  let t = c.t;
  st.class(match t {
    0 => "t=0",
    1 => "t=1",
    2..=8 => "t=2-8",
    9..=41 => "t=9-41",
    _ => "t=byte-boundary",
  });
  st.class(if c.epoch.len() > 64 { "epoch=long(>64 bytes)" } else if c.epoch.is_empty() { "epoch=empty" } else if c.epoch.is_ascii() { "epoch=ascii" } else { "epoch=non-ascii" });
  let first = create(&c.m, t, &c.epoch)?;
  st.evals(1);
  if first.key.len() != 16 {
    return Err(format!("key decodes to {} bytes, want 16", first.key.len()));
  }
  if first.tag.len() != 32 {
    return Err(format!("tag decodes to {} bytes, want 32", first.tag.len()));
  }
  let sh = sta_rs::Share::from_bytes(&first.share).ok_or_else(|| format!("share field is not a valid share: {}", hex::encode(&first.share)))?;
  if layout::share_threshold(&first.share) != Some(t) {
    return Err(format!("threshold recorded in the share is {:?}, want {t}", layout::share_threshold(&first.share)));
  }
  let _ = sh;
  // equal to what the core library derives
  let g = starx::mg(&c.m, t, c.epoch.as_bytes());
  let core = g.share_with_local_randomness().map_err(|e| e.to_string())?;
  if core.key[..] != first.key[..] || core.tag[..] != first.tag[..] {
    return Err(format!(
      "create_share key/tag differ from the core library: key {} vs {}, tag {} vs {}",
      hex::encode(&first.key),
      hex::encode(core.key),
      hex::encode(&first.tag),
      hex::encode(core.tag)
    ));
  }
  if t == 0 {
    // threshold 0: only the share-creation half is asserted (whether "0 shares suffice"
    // means anything is C16's business - there, threshold 0 never recovers)
    let _ = star_wasm::group_shares(&first.share_b64, &c.epoch);
    st.nontrivial(&("t0", fp(&c.m.0)));
    return Ok(());
  }
  // n distinct shares of the one measurement
  let n = match c.big_n {
    Some(big) if t <= 64 => {
      st.class("large-collection(255..4097 shares)");
      (big as usize).max(t as usize)
    }
    _ => (t as i64 + c.delta as i64).max(1) as usize,
  };
  let mut created = vec![first];
  for _ in 1..n.max(t as usize) {
    created.push(create(&c.m, t, &c.epoch)?);
  }
  for cr in &created {
    if cr.key != created[0].key || cr.tag != created[0].tag {
      return Err("two create_share calls for one measurement gave different key/tag".into());
    }
  }
  let mut lines: Vec<String> = created[..n].iter().map(|c| c.share_b64.clone()).collect();
  for (src, at) in &c.dups {
    let v = lines[idx(*src, lines.len())].clone();
    let pos = idx(*at, lines.len() + 1);
    lines.insert(pos, v);
  }
  let len = lines.len();
  for (a, b) in &c.swaps {
    lines.swap(idx(*a, len), idx(*b, len));
  }
  let joined = lines.join("\n");
  let key_b64 = BASE64_STANDARD.encode(&created[0].key);
  // the outcome of a call must not depend on earlier calls: optionally precede every
  // grouping call by one that carries line noise (after some valid lines)
  let poison_text: Option<String> = match c.poison {
    1 => Some(format!("{}\n{}\n", created[0].share_b64, created[created.len() - 1].share_b64)),
    2 => {
      let mut om = c.other_m.0.clone();
      om.push(0x77);
      let a = create(&om, t, &c.epoch)?;
      let b2 = create(&om, t, &c.epoch)?;
      Some(format!("{}\n{}\n@@ not base64 @@", a.share_b64, b2.share_b64))
    }
    3 => Some("@@\n\n".to_string()),
    _ => None,
  };
  let poison = |st: &mut Stats| -> Result<(), String> {
    if let Some(p) = &poison_text {
      st.evals(1);
      // Whether line noise (a trailing newline, a line that is not base64) makes the call fail or is
      // skipped is not pinned by the property; only what may come back is: nothing, or - for the batch
      // made of this measurement's own shares - the clients' key; and nothing at all when the batch
      // holds no share.
      match (c.poison, star_wasm::group_shares(p, &c.epoch)) {
        (1, Some(k)) if k != key_b64 => {
          return Err(format!("group_shares returned {k} for shares of one measurement followed by an empty line, the clients' key is {key_b64}: {p:?}"));
        }
        (3, Some(k)) => return Err(format!("group_shares returned {k} for a batch that holds no share at all: {p:?}")),
        (_, Some(_)) => st.class("preceded-by-a-call-with-line-noise:answered"),
        (_, None) => st.class("preceded-by-a-call-with-line-noise:refused"),
      }
    }
    Ok(())
  };
  poison(st)?;
  let res = star_wasm::group_shares(&joined, &c.epoch);
  st.evals(1);
  if n >= t as usize {
    st.class("distinct>=t");
    match &res {
      Some(k) if *k == key_b64 => {}
      other => {
        return Err(format!(
          "group_shares with {n} distinct shares (t={t}, {} lines) returned {:?}, want the clients' key {key_b64}",
          lines.len(),
          other
        ))
      }
    }
    // a different epoch never yields the clients' key
    if c.other_epoch != c.epoch {
      poison(st)?;
      let r2 = star_wasm::group_shares(&joined, &c.other_epoch);
      st.evals(1);
      if r2.as_deref() == Some(&key_b64[..]) {
        return Err(format!("group_shares under a different epoch {:?} (clients used {:?}) returned the clients' key", c.other_epoch, c.epoch));
      }
      st.class("other-epoch");
    }
  } else {
    st.class("distinct<t");
    if let Some(k) = &res {
      return Err(format!("group_shares with {n} < t={t} distinct shares ({} lines) returned {k}", lines.len()));
    }
  }
  // mixed grouping in which no measurement reaches its threshold yields nothing
  if t >= 2 {
    let mut om = c.other_m.0.clone();
    if om == c.m.0 {
      om.push(1);
    }
    let mut mixed: Vec<String> = created[..t as usize - 1].iter().map(|c| c.share_b64.clone()).collect();
    for _ in 0..t as usize - 1 {
      mixed.push(create(&om, t, &c.epoch)?.share_b64);
    }
    let len = mixed.len();
    for (a, b) in &c.swaps {
      mixed.swap(idx(*a, len), idx(*b, len));
    }
    poison(st)?;
    let r = star_wasm::group_shares(&mixed.join("\n"), &c.epoch);
    st.evals(1);
    if let Some(k) = r {
      return Err(format!("mixed-measurement grouping in which no measurement reaches t={t} returned {k}"));
    }
    st.class("mixed-measurements-below-threshold");
  }
  if (n as i64 - t as i64).abs() <= 1 || !c.epoch.is_ascii() || c.epoch.is_empty() {
    st.nontrivial(&(t, n, &c.epoch, fp(&c.m.0), &c.dups));
  }
  if st.want_sample() {
    st.sample(json!({"t": t, "epoch": c.epoch, "distinct_shares": n, "lines": lines.len(), "result": res}));
  }
  Ok(())
}

pub fn property() -> Property {
  Property {
    id: "C17",
    level: "exploration",
    rule: "generated (measurement bytes, t in 0..40, epoch strings empty / ASCII / multi-byte with quotes, backslashes, newlines, NUL / long (up to 600 characters, lengths around 64, 128, 256); t-2..t+3 distinct shares, duplicates, shuffles, another epoch, a second measurement). Oracle: create_share parses as JSON with exactly key/share/tag, base64 fields decode to 16 bytes, a share accepted by Share::from_bytes with threshold t, 32 bytes, equal to MessageGenerator::share_with_local_randomness; group_shares returns the clients' key iff >= t distinct shares are present, never under another epoch, nothing for a mixed grouping below threshold (grouping is not asserted for t = 0). Non-trivial: share count within 1 of t, or a non-ASCII / empty epoch.",
    assumptions: vec!["the #[wasm_bindgen] functions are called natively on the host target"],
    subs: vec![prop_sub("wasm_wrapper", 2500, 400000, strat, oracle)],
  }
}
