//! C18 Reference aggregation server reveals exactly the measurements with >= t reports.

use crate::engine::*;
use crate::gens::*;
use crate::starx;
use proptest::collection::vec;
use proptest::prelude::*;
use serde::{Deserialize, Serialize};
use serde_json::json;
use sta_rs::Message;
use star_test_utils::AggregationServer;
use std::collections::BTreeMap;

#[derive(Clone, Debug, Serialize, Deserialize)]
pub struct Group {
  pub m: Hx,
  /// group size: t + delta (at least 1)
  pub delta: i8,
  pub aux: Vec<Option<Hx>>,
}

#[derive(Clone, Debug, Serialize, Deserialize)]
pub struct Case {
  pub t: u32,
  pub epoch: String,
  pub groups: Vec<Group>,
  pub perm_seed: u64,
  pub pools: (u8, u8),
}

fn strat(tier: Tier) -> BoxedStrategy<Case> {
  let gmax = tier.pick(40usize, 400usize);
  (
    1u32..9,
    "[a-z0-9]{0,6}",
    vec(
      (prop_oneof![6 => bytes(60), 1 => bytes(400)], prop_oneof![4 => Just(-1i8), 4 => Just(0i8), 3 => Just(1i8), 2 => -8i8..9], vec(prop_oneof![4 => Just(None), 2 => Just(Some(Hx(vec![]))), 6 => bytes(64).prop_map(Some), 1 => bytes(900).prop_map(Some)], 1..5))
        .prop_map(|(m, delta, aux)| Group { m, delta, aux }),
      1..gmax,
    ),
    any::<u64>(),
    (1u8..17, 1u8..17),
  )
    .prop_map(|(t, epoch, groups, perm_seed, pools)| Case { t, epoch, groups, perm_seed, pools })
    .boxed()
}

/// observation of one output: measurement -> sorted list of aux (None and empty merged, see DESIGN 8)
type Obs = BTreeMap<Vec<u8>, Vec<Vec<u8>>>;

fn observe(server: &AggregationServer, msgs: &[Message], pool: usize) -> Result<(Obs, usize, usize), String> {
  let tp = rayon::ThreadPoolBuilder::new().num_threads(pool).build().map_err(|e| e.to_string())?;
  let outs = tp.install(|| server.retrieve_outputs(msgs));
  let mut obs: Obs = BTreeMap::new();
  let (mut none, mut some_empty) = (0, 0);
  let n_out = outs.len();
  for o in outs {
    let mut auxes: Vec<Vec<u8>> = o
      .aux
      .iter()
      .map(|a| match a {
        None => {
          none += 1;
          vec![]
        }
        Some(ad) => {
          if ad.as_slice().is_empty() {
            some_empty += 1;
          }
          ad.as_vec()
        }
      })
      .collect();
    auxes.sort();
    if obs.insert(o.x.as_vec(), auxes).is_some() {
      return Err(format!("measurement {} output more than once", hex::encode(o.x.as_slice())));
    }
  }
  if obs.len() != n_out {
    return Err("duplicate outputs".into());
  }
  Ok((obs, none, some_empty))
}

fn shuffle<T>(v: &mut [T], seed: u64) {
  // Fisher-Yates driven by the generated seed (expanded deterministically)
  let r = expand(seed, v.len() * 8 + 8);
  for i in (1..v.len()).rev() {
    let mut b = [0u8; 8];
    b.copy_from_slice(&r[i * 8..i * 8 + 8]);
    let j = (u64::from_le_bytes(b) % (i as u64 + 1)) as usize;
    v.swap(i, j);
  }
}

fn oracle(c: &Case, st: &mut Stats) -> Result<(), String> {
  let t = c.t.max(1);
  let mut seen = std::collections::BTreeSet::new();
  let mut msgs: Vec<Message> = Vec::new();
  let mut expect: Obs = BTreeMap::new();
  let (mut at, mut below) = (0, 0);
  let mut total_big = 0;
  for (gi, g) in c.groups.iter().enumerate() {
    let mut m = g.m.0.clone();
    if !seen.insert(m.clone()) {
      m.extend_from_slice(&(gi as u32).to_le_bytes());
      m.push(0xEE);
      seen.insert(m.clone());
    }
    // now and then one large group (sizes around powers of two)
    let size = if g.delta == 8 && g.m.len() % 5 == 0 && total_big == 0 {
      total_big += 1;
      st.class("large-group(255..2049 reports)");
      [255usize, 256, 257, 1023, 1024, 1025, 2049][g.m.len() / 5 % 7]
    } else {
      (t as i64 + g.delta as i64).max(1) as usize
    };
    let mg = starx::mg(&m, t, c.epoch.as_bytes());
    let rnd = starx::local_rnd(&mg);
    let mut auxes = Vec::new();
    for i in 0..size {
      let a = g.aux[i % g.aux.len()].as_ref();
      msgs.push(starx::report(&mg, &rnd, a.map(|x| &x[..]))?);
      auxes.push(a.map(|x| x.0.clone()).unwrap_or_default());
    }
    if size >= t as usize {
      auxes.sort();
      expect.insert(m, auxes);
      at += 1;
    } else {
      below += 1;
    }
  }
  let server = AggregationServer::new(t, &c.epoch);
  let (p1, p2) = (c.pools.0.max(1) as usize, c.pools.1.max(1) as usize);
  // order 1: as generated (grouped); order 2: generated permutation
  let mut permuted = msgs.clone();
  shuffle(&mut permuted, c.perm_seed);
  let runs = [(&msgs, p1, "grouped order"), (&permuted, p1, "permuted order"), (&permuted, p2, "permuted order, other pool size")];
  for (input, pool, what) in runs {
    st.evals(1);
    let (obs, _none, _some_empty) = observe(&server, input, pool)?;
    if obs != expect {
      let missing: Vec<String> = expect.keys().filter(|k| !obs.contains_key(*k)).map(|k| hex::encode(k)).collect();
      let extra: Vec<String> = obs.keys().filter(|k| !expect.contains_key(*k)).map(|k| hex::encode(k)).collect();
      let wrong_aux: Vec<String> = expect
        .iter()
        .filter(|(k, v)| obs.get(*k).map(|o| o != *v).unwrap_or(false))
        .map(|(k, v)| format!("{}: want {:?} got {:?}", hex::encode(k), v.iter().map(hex::encode).collect::<Vec<_>>(), obs[k].iter().map(hex::encode).collect::<Vec<_>>()))
        .collect();
      return Err(format!(
        "aggregation output differs from the expected multiset ({what}, t={t}, {pool} worker threads, {} reports in {} groups): missing measurements {missing:?}, unexpected {extra:?}, wrong associated data {wrong_aux:?}",
        input.len(),
        c.groups.len()
      ));
    }
  }
  st.class(&format!("groups>=t:{}", at.min(9)));
  if c.groups.iter().any(|g| {
    let long: Vec<&Hx> = g.aux.iter().flatten().filter(|a| g.m.len() + a.len() + 8 > 166).collect();
    (g.delta >= 0) && long.len() >= 2 && long.iter().any(|a| a.0 != long[0].0)
  }) {
    st.class("revealed-group-with-differing-multi-block-payloads");
  }
  if at > 0 && below > 0 {
    st.class("mixed-above-and-below");
    st.nontrivial(&(t, c.groups.len(), at, below, c.perm_seed, c.pools));
  }
  if st.want_sample() {
    st.sample(json!({"t": t, "epoch": c.epoch, "groups": c.groups.len(), "reports": msgs.len(), "groups_at_threshold": at, "below": below, "pools": [p1, p2]}));
  }
  Ok(())
}

/// One collection of more than 16384 (2 x 16384) reports in a single call (S200): qualifying
/// measurements whose reports sit at both ends of the input, one measurement just below
/// the threshold, distinct singletons in between.
#[derive(Clone, Debug, Serialize, Deserialize)]
pub struct Huge {
  pub i: u64,
}

fn oracle_huge(c: &Huge, st: &mut Stats) -> Result<(), String> {
  let t = 2 + (c.i % 3) as u32;
  let batches = 1 + (c.i / 3 % 2) as usize;
  let epoch = format!("huge-{}", c.i);
  let mk = |m: &[u8], n: usize, tagbyte: u8| -> Result<(Vec<Message>, Vec<Vec<u8>>), String> {
    let mg = starx::mg(m, t, epoch.as_bytes());
    let rnd = starx::local_rnd(&mg);
    let mut out = Vec::new();
    let mut auxes = Vec::new();
    for j in 0..n {
      let a = vec![tagbyte, j as u8];
      out.push(starx::report(&mg, &rnd, Some(&a[..]))?);
      auxes.push(a);
    }
    Ok((out, auxes))
  };
  let (a, mut a_aux) = mk(b"huge-group-a", t as usize + 1, 0xA0)?;
  let (b, mut b_aux) = mk(b"huge-group-b", t as usize, 0xB0)?;
  let (cc, _) = mk(b"huge-group-c-below", t as usize - 1, 0xC0)?;
  let mut head: Vec<Message> = Vec::new();
  let mut tail: Vec<Message> = Vec::new();
  // A: 2 reports in front, the rest at the end; B: 1 in front; C: 1 in front (if it has any)
  for (k, m) in a.into_iter().enumerate() {
    if k < 2 { head.push(m) } else { tail.push(m) }
  }
  for (k, m) in b.into_iter().enumerate() {
    if k < 1 { head.push(m) } else { tail.push(m) }
  }
  for (k, m) in cc.into_iter().enumerate() {
    if k < 1 { head.push(m) } else { tail.push(m) }
  }
  let filler = batches * 16384 + 1;
  let mut msgs = head;
  for f in 0..filler {
    let m = format!("huge-singleton-{f}");
    msgs.push(mk(m.as_bytes(), 1, 0xF0)?.0.pop().unwrap());
  }
  msgs.extend(tail);
  let mut expect: Obs = BTreeMap::new();
  a_aux.sort();
  b_aux.sort();
  expect.insert(b"huge-group-a".to_vec(), a_aux);
  expect.insert(b"huge-group-b".to_vec(), b_aux);
  let server = AggregationServer::new(t, &epoch);
  let mut rev = msgs.clone();
  rev.reverse();
  for (input, what) in [(&msgs, "as built"), (&rev, "reversed")] {
    st.evals(1);
    let (obs, _, _) = observe(&server, input, 4)?;
    if obs != expect {
      return Err(format!(
        "aggregation of {} reports in one call ({what}, t={t}) differs from the expected output: got measurements {:?} with {:?} associated data, want huge-group-a ({} reports) and huge-group-b ({} reports)",
        input.len(),
        obs.keys().map(|k| String::from_utf8_lossy(k).to_string()).collect::<Vec<_>>(),
        obs.values().map(|v| v.len()).collect::<Vec<_>>(),
        t + 1,
        t
      ));
    }
  }
  st.class(&format!("reports>{}", batches * 16384));
  st.nontrivial(&(c.i,));
  if st.want_sample() {
    st.sample(json!({"t": t, "reports": msgs.len(), "qualifying": 2, "below": 1 + filler}));
  }
  Ok(())
}

pub fn property() -> Property {
  Property {
    id: "C18",
    level: "exploration",
    rule: "generated (t in 1..8, 1..40 groups quick / ..400 thorough with distinct measurements and sizes t-1 / t / t+1 / t-8..t+8, per-client aux absent / empty / bytes (now and then several hundred bytes, so that payloads span several cipher blocks and differ in an early one), a generated permutation of the flattened reports, two worker-pool sizes from 1..16); every case is run in grouped order, permuted order, and permuted order under the second pool size. Oracle: the output as a map measurement -> sorted multiset of associated data equals {groups with >= t reports}; no group missing, duplicated or below threshold; identical across orders and pool sizes. Non-trivial: at least one group >= t and one < t. Sub-check huge_collection: 2 (quick) / 6 (thorough) single calls with more than 16384 or 32768 reports, two qualifying measurements whose reports sit at both ends of the input, one measurement one report short, distinct singletons in between, as built and reversed.",
    assumptions: vec![
      "the reference server reports a present-but-empty associated datum as absent; both carry the same data and are compared as equal here (the absent/empty distinction is asserted at protocol level in C01)",
      "schedules are varied only through the rayon pool size; the harness does not own rayon's interleaving",
      "each client submits one report (an honest multiset)",
    ],
    subs: vec![
      prop_sub("aggregation", 600, 15000, strat, oracle),
      enum_sub("huge_collection", |t| if t == Tier::Quick { 2 } else { 6 }, |_, i| Huge { i: if i < 2 { i * 3 + 1 } else { i } }, oracle_huge),
    ],
  }
}
