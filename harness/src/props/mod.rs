use crate::engine::Property;

pub mod c01;

pub fn property(id: &str) -> Option<Property> {
  match id {
    "C01" => Some(c01::property()),
    _ => None,
  }
}
