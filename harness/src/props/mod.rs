use crate::engine::Property;

pub mod c01;
pub mod c02;
pub mod c03;
pub mod c04;
pub mod c05;
pub mod c06;
pub mod c07;
pub mod c08;
pub mod c09;
pub mod c10;
pub mod c11;
pub mod c12;
pub mod c13;
pub mod c14;
pub mod c15;
pub mod c16;
pub mod c17;
pub mod c18;

pub fn property(id: &str) -> Option<Property> {
  match id {
    "C01" => Some(c01::property()),
    "C02" => Some(c02::property()),
    "C03" => Some(c03::property()),
    "C04" => Some(c04::property()),
    "C05" => Some(c05::property()),
    "C06" => Some(c06::property()),
    "C07" => Some(c07::property()),
    "C08" => Some(c08::property()),
    "C09" => Some(c09::property()),
    "C10" => Some(c10::property()),
    "C11" => Some(c11::property()),
    "C12" => Some(c12::property()),
    "C13" => Some(c13::property()),
    "C14" => Some(c14::property()),
    "C15" => Some(c15::property()),
    "C16" => Some(c16::property()),
    "C17" => Some(c17::property()),
    "C18" => Some(c18::property()),
    _ => None,
  }
}
