use crate::engine::Property;

pub mod c01;
pub mod c02;
pub mod c03;
pub mod c04;
pub mod c05;
pub mod c06;
pub mod c07;
pub mod c08;
pub mod c09;

pub fn property(id: &str) -> Option<Property> {
  match id {
    "C01" => Some(c01::property()),
    "C02" => Some(c02::property()),
    "C03" => Some(c03::property()),
    "C04" => Some(c04::property()),
    "C05" => Some(c05::property()),
    "C06" => Some(c06::property()),
    "C07" => Some(c07::property()),
    "C08" => Some(c08::property()),
    "C09" => Some(c09::property()),
    _ => None,
  }
}
