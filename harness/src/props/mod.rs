use crate::engine::Property;

pub mod c01;
pub mod c06;
pub mod c07;
pub mod c08;
pub mod c09;

pub fn property(id: &str) -> Option<Property> {
  match id {
    "C01" => Some(c01::property()),
    "C06" => Some(c06::property()),
    "C07" => Some(c07::property()),
    "C08" => Some(c08::property()),
    "C09" => Some(c09::property()),
    _ => None,
  }
}
