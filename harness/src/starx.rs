//! Helpers around the STAR / PPOPRF public API shared by several properties.

use ppoprf::ppoprf::{Client, Server};
use sta_rs::{AssociatedData, Message, MessageGenerator, SingleMeasurement};

fn route(b: &[u8]) -> u64 {
  let mut h: u64 = 0xcbf2_9ce4_8422_2325;
  for x in b {
    h = (h ^ *x as u64).wrapping_mul(0x0000_0100_0000_01b3);
  }
  h >> 7
}

/// The measurement is wrapped by one of the public constructors (`new`, `From<&str>` when the
/// bytes are UTF-8), chosen as a pure function of the bytes: all of them must mean the same bytes.
pub fn measurement(m: &[u8]) -> SingleMeasurement {
  match (std::str::from_utf8(m), route(m) % 2) {
    (Ok(s), 0) => SingleMeasurement::from(s),
    _ => SingleMeasurement::new(m),
  }
}

/// likewise for associated data: `new`, `From<&[u8]>`, `From<&str>`
pub fn associated(a: &[u8]) -> AssociatedData {
  match (std::str::from_utf8(a), route(a) % 3) {
    (Ok(s), 0) => AssociatedData::from(s),
    (_, 1) => AssociatedData::from(a),
    _ => AssociatedData::new(a),
  }
}

pub fn mg(m: &[u8], t: u32, epoch: &[u8]) -> MessageGenerator {
  MessageGenerator::new(measurement(m), t, epoch)
}

pub fn local_rnd(g: &MessageGenerator) -> [u8; 32] {
  let mut rnd = [0u8; 32];
  g.sample_local_randomness(&mut rnd);
  rnd
}

pub fn report(g: &MessageGenerator, rnd: &[u8; 32], aux: Option<&[u8]>) -> Result<Message, String> {
  Message::generate(g, rnd, aux.map(associated)).map_err(|e| format!("Message::generate failed: {e}"))
}

/// One full client <-> randomness-server exchange; returns the finalised 32 bytes.
pub fn ppoprf_exchange(server: &Server, md: u8, input: &[u8], verifiable: bool) -> Result<[u8; 32], String> {
  let (blinded, r) = Client::blind(input);
  let ev = server
    .eval(&blinded, md, verifiable)
    .map_err(|e| format!("Server::eval failed for registered tag {md}: {e}"))?;
  if verifiable && !Client::verify(&server.get_public_key(), &blinded, &ev, md) {
    return Err(format!("honest verifiable evaluation did not verify (tag {md})"));
  }
  let unblinded = Client::unblind(&ev.output, &r);
  let mut out = [0xC3u8; 32]; // previous contents must not matter
  Client::finalize(input, md, &unblinded, &mut out);
  Ok(out)
}

pub fn ske_key(msg: &[u8], epoch: &[u8]) -> [u8; 16] {
  let mut k = [0x3Cu8; 16]; // previous contents must not matter
  sta_rs::derive_ske_key(msg, epoch, &mut k);
  k
}
