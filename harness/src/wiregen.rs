//! Generator of wire strings (valid, degenerate and malformed encodings of
//! shares and reports), shared by C08 (differential decoding) and C09 (crash
//! freedom).  A case is a *base* plus a *mutation family*; most families are
//! enumerated completely for their base (every prefix, every length field x
//! every boundary value, every offset x every fault kind).

use crate::bigmodel;
use crate::engine::{bx, idx, Tier};
use crate::gens::*;
use crate::layout::{self, chunk, FE, MAC};
use num_bigint::BigUint;
use proptest::prelude::*;
use serde::{Deserialize, Serialize};

#[derive(Clone, Debug, Serialize, Deserialize)]
pub enum Base {
  /// built from the layout model alone (no valid MAC)
  ModelShare {
    threshold: u32,
    /// number of y elements
    k: u8,
    /// field-element content class: 0 uniform < p, 1 zero, 2 p-1, 3 small
    fe_class: u8,
    seed: u64,
    c_len: u16,
    d_len: u16,
    /// extra bytes (< 24) at the end of S
    partial: u8,
  },
  /// produced by adss::Commune::share
  HonestShare { t: u32, m: Hx, r: Hx },
  ModelReport {
    share: Box<Base>,
    ct_len: u16,
    tag_len: u8,
    seed: u64,
  },
  /// produced by sta_rs::Message::generate
  HonestReport {
    m: Hx,
    epoch: Hx,
    t: u32,
    aux: Option<Hx>,
  },
  Raw(Hx),
}

fn thr() -> BoxedStrategy<u32> {
  prop_oneof![
    2 => Just(0u32),
    2 => Just(1u32),
    4 => 2u32..20,
    1 => Just(0x7FFF_FFFFu32),
    1 => Just(0x8000_0000u32),
    1 => Just(u32::MAX),
    1 => any::<u32>(),
  ]
  .boxed()
}

pub fn model_share() -> BoxedStrategy<Base> {
  (
    thr(),
    prop_oneof![2 => Just(0u8), 4 => Just(1u8), 2 => Just(2u8), 1 => 3u8..5],
    0u8..4,
    any::<u64>(),
    prop_oneof![2 => Just(0u16), 3 => 1u16..40, 1 => 40u16..301],
    prop_oneof![2 => Just(0u16), 3 => 1u16..40, 1 => 40u16..301],
    prop_oneof![5 => Just(0u8), 1 => 1u8..24],
  )
    .prop_map(|(threshold, k, fe_class, seed, c_len, d_len, partial)| Base::ModelShare {
      threshold,
      k,
      fe_class,
      seed,
      c_len,
      d_len,
      partial,
    })
    .boxed()
}

pub fn honest_share() -> BoxedStrategy<Base> {
  (1u32..12, bytes(200), bytes(64))
    .prop_map(|(t, m, r)| Base::HonestShare { t, m, r })
    .boxed()
}

pub fn share_base() -> BoxedStrategy<Base> {
  prop_oneof![4 => model_share(), 1 => honest_share()].boxed()
}

pub fn report_base() -> BoxedStrategy<Base> {
  prop_oneof![
    4 => (share_base(), prop_oneof![Just(0u16), 1u16..60, 60u16..400], prop_oneof![Just(0u8), Just(32u8), 0u8..65], any::<u64>())
      .prop_map(|(s, ct_len, tag_len, seed)| Base::ModelReport { share: Box::new(s), ct_len, tag_len, seed }),
    1 => (bytes(200), bytes(16), 1u32..8, proptest::option::of(bytes(200)))
      .prop_map(|(m, epoch, t, aux)| Base::HonestReport { m, epoch, t, aux }),
  ]
  .boxed()
}

pub fn any_base() -> BoxedStrategy<Base> {
  prop_oneof![
    5 => share_base(),
    4 => report_base(),
    1 => bytes(400).prop_map(Base::Raw),
    1 => small_bytes(12).prop_map(Base::Raw),
  ]
  .boxed()
}

fn fe_bytes(class: u8, seed: u64) -> [u8; 24] {
  let p = bigmodel::p();
  let v: BigUint = match class % 4 {
    0 => BigUint::from_bytes_le(&expand(seed, 24)) % &p,
    1 => BigUint::from(0u8),
    2 => &p - 1u32,
    _ => BigUint::from(seed % 7 + 1),
  };
  bigmodel::le24(&v)
}

impl Base {
  pub fn kind(&self) -> &'static str {
    match self {
      Base::ModelShare { .. } => "model-share",
      Base::HonestShare { .. } => "honest-share",
      Base::ModelReport { .. } => "model-report",
      Base::HonestReport { .. } => "honest-report",
      Base::Raw(_) => "raw",
    }
  }
  pub fn is_report(&self) -> bool {
    matches!(self, Base::ModelReport { .. } | Base::HonestReport { .. })
  }
  pub fn is_honest(&self) -> bool {
    matches!(self, Base::HonestShare { .. } | Base::HonestReport { .. })
  }
  /// materialise the base as bytes
  pub fn build(&self) -> Result<Vec<u8>, String> {
    Ok(match self {
      Base::ModelShare {
        threshold,
        k,
        fe_class,
        seed,
        c_len,
        d_len,
        partial,
      } => {
        let mut s = Vec::new();
        s.extend_from_slice(&fe_bytes(if *fe_class == 1 { 3 } else { *fe_class }, *seed));
        for i in 0..*k {
          s.extend_from_slice(&fe_bytes(*fe_class, seed.wrapping_add(1 + i as u64)));
        }
        s.extend_from_slice(&expand(seed ^ 0x55, (*partial % 24) as usize));
        let c = expand(seed ^ 0xC, *c_len as usize);
        let d = expand(seed ^ 0xD, *d_len as usize);
        let j = expand(seed ^ 0x1, MAC);
        layout::encode_share(*threshold, &s, &c, &d, &j)
      }
      Base::HonestShare { t, m, r } => adss::Commune::new(*t, m.0.clone(), r.0.clone(), None)
        .share()
        .map_err(|e| format!("honest share failed: {e}"))?
        .to_bytes(),
      Base::ModelReport {
        share,
        ct_len,
        tag_len,
        seed,
      } => {
        let sb = share.build()?;
        layout::encode_report(&expand(seed ^ 0xCC, *ct_len as usize), &sb, &expand(seed ^ 0x7, *tag_len as usize))
      }
      Base::HonestReport { m, epoch, t, aux } => {
        let g = crate::starx::mg(m, (*t).max(1), epoch);
        let rnd = crate::starx::local_rnd(&g);
        crate::starx::report(&g, &rnd, aux.as_ref().map(|a| &a[..]))?.to_bytes()
      }
      Base::Raw(h) => h.0.clone(),
    })
  }
}

#[derive(Clone, Debug, Serialize, Deserialize)]
pub enum Family {
  /// the base itself
  Identity,
  /// every prefix of the base
  AllPrefixes,
  /// every length field set to each boundary value
  AllLengthFields,
  /// a fault of each kind at every byte offset
  AllOffsets,
  /// the base with extra bytes appended
  Append(Hx),
  /// base[..a] ++ other[b..]
  Splice { other: Base, a: u16, b: u16 },
  /// a field element inside S replaced by an out-of-range value
  FeOutOfRange { which: u16, add: u8 },
}

pub fn family() -> BoxedStrategy<Family> {
  prop_oneof![
    2 => Just(Family::Identity),
    2 => Just(Family::AllPrefixes),
    3 => Just(Family::AllLengthFields),
    3 => Just(Family::AllOffsets),
    1 => small_bytes(70).prop_map(Family::Append),
    2 => (any_base_shallow(), any::<u16>(), any::<u16>()).prop_map(|(other, a, b)| Family::Splice { other, a, b }),
    2 => (any::<u16>(), 0u8..3).prop_map(|(which, add)| Family::FeOutOfRange { which, add }),
  ]
  .boxed()
}

fn any_base_shallow() -> BoxedStrategy<Base> {
  prop_oneof![3 => model_share(), 1 => bytes(200).prop_map(Base::Raw)].boxed()
}

#[derive(Clone, Debug, Serialize, Deserialize)]
pub struct WireCase {
  pub base: Base,
  pub family: Family,
}

pub fn wire_case(_t: Tier) -> BoxedStrategy<WireCase> {
  (any_base(), family())
    .prop_map(|(base, family)| WireCase { base, family })
    .boxed()
}

/// offsets of all u32 length prefixes in `s` (by the layout model), with the
/// number of bytes that follow the prefix ("remaining")
pub fn length_fields(s: &[u8], is_report: bool) -> Vec<(usize, usize)> {
  let mut v = Vec::new();
  let mut share_at: Option<usize> = None;
  if is_report {
    if let Some(f) = layout::report_fields(s) {
      v.push(f.len_ct.start);
      v.push(f.len_share.start);
      v.push(f.len_tag.start);
      share_at = Some(f.share.start);
    }
  } else {
    share_at = Some(0);
  }
  if let Some(o) = share_at {
    if let Some(f) = layout::share_fields(&s[o..]) {
      v.push(o); // threshold word (not a length, still a u32 worth exercising)
      v.push(o + f.len_s.start);
      v.push(o + f.len_c.start);
      v.push(o + f.len_d.start);
    }
  }
  if v.is_empty() && s.len() >= 4 {
    v.push(0);
  }
  v.into_iter().filter(|o| o + 4 <= s.len()).map(|o| (o, s.len() - o - 4)).collect()
}

pub fn boundary_lengths(truth: u32, remaining: usize) -> Vec<u32> {
  let r = remaining as u64;
  let mut v: Vec<u64> = vec![
    0,
    1,
    truth as u64 + 1,
    (truth as u64).saturating_sub(1),
    23,
    24,
    25,
    47,
    48,
    49,
    r,
    r + 1,
    r.saturating_sub(1),
    r.saturating_sub(64),
    1 << 31,
    (1 << 31) - 1,
    0xFFFF_FFFB,
    0xFFFF_FFFC,
    0xFFFF_FFFD,
    0xFFFF_FFFE,
    0xFFFF_FFFF,
  ];
  v.retain(|x| *x <= u32::MAX as u64);
  v.sort();
  v.dedup();
  v.into_iter().map(|x| x as u32).collect()
}

pub const FAULT_KINDS: usize = 12;
pub fn apply_fault(b: u8, kind: usize) -> u8 {
  match kind {
    0..=7 => b ^ (1 << kind),
    8 => 0x00,
    9 => 0xFF,
    10 => b.wrapping_add(1),
    _ => b.wrapping_sub(1),
  }
}

impl WireCase {
  /// Call `f` on every string of the case; stops at the first error.
  pub fn for_each(&self, mut f: impl FnMut(&[u8], &str) -> Result<(), String>) -> Result<u64, String> {
    let base = self.base.build()?;
    let is_report = self.base.is_report();
    let mut n = 0u64;
    match &self.family {
      Family::Identity => {
        n += 1;
        f(&base, "identity")?;
      }
      Family::AllPrefixes => {
        for k in 0..=base.len() {
          n += 1;
          f(&base[..k], "prefix")?;
        }
      }
      Family::AllLengthFields => {
        for (off, rem) in length_fields(&base, is_report) {
          let truth = u32::from_le_bytes([base[off], base[off + 1], base[off + 2], base[off + 3]]);
          for val in boundary_lengths(truth, rem) {
            let mut s = base.clone();
            s[off..off + 4].copy_from_slice(&val.to_le_bytes());
            n += 1;
            f(&s, "length-field")?;
          }
        }
      }
      Family::AllOffsets => {
        let mut s = base.clone();
        for off in 0..base.len() {
          for kind in 0..FAULT_KINDS {
            let nb = apply_fault(base[off], kind);
            if nb == base[off] {
              continue;
            }
            s[off] = nb;
            n += 1;
            f(&s, "byte-fault")?;
          }
          s[off] = base[off];
        }
      }
      Family::Append(extra) => {
        let mut s = base.clone();
        s.extend_from_slice(extra);
        n += 1;
        f(&s, "append")?;
      }
      Family::Splice { other, a, b } => {
        let o = other.build()?;
        let ca = idx(*a, base.len() + 1);
        let cb = idx(*b, o.len() + 1);
        let mut s = base[..ca].to_vec();
        s.extend_from_slice(&o[cb..]);
        n += 1;
        f(&s, "splice")?;
      }
      Family::FeOutOfRange { which, add } => {
        // locate S through the model and overwrite one element with p + add
        let share_off = if is_report {
          layout::report_fields(&base).map(|r| r.share.start)
        } else {
          Some(0)
        };
        let mut done = false;
        if let Some(o) = share_off {
          if let Some(fl) = layout::share_fields(&base[o..]) {
            let cnt = fl.s.len() / FE;
            if cnt > 0 {
              let i = idx(*which, cnt);
              let v = bigmodel::p() + BigUint::from(*add);
              let mut s = base.clone();
              let st = o + fl.s.start + i * FE;
              s[st..st + FE].copy_from_slice(&bigmodel::le24(&v));
              n += 1;
              done = true;
              f(&s, "element-out-of-range")?;
            }
          }
        }
        if !done {
          n += 1;
          f(&base, "identity")?;
        }
      }
    }
    Ok(n)
  }
}

/// strings for the small helpers (load_u32, load_bytes, AccessStructure)
pub fn small_string() -> BoxedStrategy<Hx> {
  prop_oneof![
    3 => small_bytes(12),
    2 => (any::<u32>(), small_bytes(40)).prop_map(|(l, b)| {
      let mut v = l.to_le_bytes().to_vec();
      v.extend_from_slice(&b);
      Hx(v)
    }),
    3 => (small_bytes(40), -3i32..4).prop_map(|(b, d)| {
      let l = (b.len() as i64 + d as i64).max(0) as u32;
      let mut v = l.to_le_bytes().to_vec();
      v.extend_from_slice(&b);
      Hx(v)
    }),
    2 => (prop_oneof![Just(0xFFFF_FFFFu32), Just(0xFFFF_FFFCu32), Just(0xFFFF_FFFBu32), Just(0x8000_0000u32)], small_bytes(8)).prop_map(|(l, b)| {
      let mut v = l.to_le_bytes().to_vec();
      v.extend_from_slice(&b);
      Hx(v)
    }),
  ]
  .boxed()
}

pub fn _unused() {
  let _ = bx(Just(0u8));
  let _ = chunk(&[]);
}
