#!/bin/bash
# run.sh <property-id> <quick|thorough>
# Rebuilds the harness against /repo's current working tree (incremental; a
# no-op when nothing changed), then runs the check.  Exit 0 = held, 1 =
# VIOLATION, 2 = inconclusive (build failure, watchdog, killed child).
set -u
id="${1:?property id}"
tier="${2:-${VERIF_TIER:-quick}}"
here="$(cd "$(dirname "$0")" && pwd)"
export CARGO_NET_OFFLINE=true
export VERIF_ROOT="$here"
mkdir -p "$here/evidence" "$here/replays"
cd "$here/harness" || exit 2
(
  flock 9
  cargo build --release --offline >"$here/harness/build.log" 2>&1
) 9>"$here/harness/.build.lock"
rc=$?
if [ $rc -ne 0 ]; then
  echo "INCONCLUSIVE property=$id harness build failed (see harness/build.log)"
  tail -n 30 "$here/harness/build.log"
  exit 2
fi
# C09: aborts cannot be caught in-process; the engine journals the running case per shard
[ "$id" = "C09" ] && export VERIF_JOURNAL=1 && rm -f "$here/replays/$id-journal-"*.json
"$here/harness/target/release/verif" check "$id" --tier "$tier"
rc=$?
# E2 (thorough tier only): bounded libFuzzer campaigns for the properties over byte strings / histories
if [ $rc -eq 0 ] && [ "$tier" = "thorough" ] && [ -z "${VERIF_NO_E2:-}" ]; then
  case "$id" in
    C05) set -- "recover 400000" ;;
    C07) set -- "field 250000" ;;
    C08) set -- "decode 1500000" ;;
    C09) set -- "decode 1000000" "recover 300000" "ppoprf 150000" "wasm 400000" ;;
    C10|C11|C14) set -- "server 1200" ;;
    C15) set -- "ppoprf 200000" ;;
    *) set -- ;;
  esac
  for tr in "$@"; do
    "$here/fuzz/campaign.sh" "$id" ${tr% *} ${tr#* } 8
    frc=$?
    if [ $frc -eq 1 ]; then rc=1; break; fi
    if [ $frc -eq 2 ] && [ $rc -eq 0 ]; then rc=2; fi
  done
fi
if [ $rc -ge 128 ]; then
  # the process died from a signal: abort / segfault inside the code under test
  j="$(ls -t "$here/replays/$id-journal-"*.json 2>/dev/null | head -1)"
  if { [ $rc -eq 134 ] || [ $rc -eq 139 ] || [ $rc -eq 132 ] || [ $rc -eq 136 ]; } && [ -n "$j" ] && [ -s "$j" ]; then
    echo "VIOLATION property=$id replay=$j"
    exit 1
  fi
  echo "INCONCLUSIVE property=$id child died with status $rc"
  exit 2
fi
exit $rc
