#!/bin/bash
# Build the framework from files on disk only (offline).
set -e
here="$(cd "$(dirname "$0")" && pwd)"
export CARGO_NET_OFFLINE=true
cd "$here/harness"
cargo build --release --offline
