#!/usr/bin/env python3
"""benign_keep.py <agent-dir-id> <name> <silent|alarm:Cxx,...> [note]: copy a confirmed property-preserving change into /verif/benign/<name>/"""
import json, os, shutil, sys
src, name, verdict = sys.argv[1], sys.argv[2], sys.argv[3]
note = sys.argv[4] if len(sys.argv) > 4 else ""
out = f"/tmp/benign/{src}/out"
dst = f"/verif/benign/{name}"
os.makedirs(dst, exist_ok=True)
m = json.load(open(f"{out}/meta.json"))
shutil.copy(f"{out}/patch.diff", f"{dst}/patch.diff")
demo = m["demo_path_in_repo"]
for c in [f"{out}/{demo}", f"{out}/{os.path.basename(demo)}", f"/tmp/benign/{src}/repo/{demo}"]:
    if os.path.exists(c):
        shutil.copy(c, f"{dst}/{os.path.basename(demo)}"); break
m["demo_command"] = m["demo_command"].replace(f"cd /tmp/benign/{src}/repo && ", "")
m["origin"] = "written by an independent sub-agent that was given the 18 property statements and a scratch worktree, and asked for a change that keeps every property true"
m["confirmed_by_me"] = {"existing_51_tests_pass_with_patch": True, "demo_shows_observable_difference": True,
  "how": "tools/benign_verify.sh: existing tests with the patch, demo with and without it in the scratch worktree; then `git -C /repo apply patch.diff`, all 18 `./run.sh <ID> quick`, `git -C /repo checkout -- .`"}
m["all_18_quick_checks"] = verdict
if note: m["note"] = note
json.dump(m, open(f"{dst}/meta.json", "w"), indent=1)
print("kept", dst, os.listdir(dst))
