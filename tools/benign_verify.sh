#!/bin/bash
# benign_verify.sh <ID> [props...]: confirm a sub-agent's property-preserving change in its
# scratch worktree (/tmp/benign/<ID>/repo: existing tests pass, demo shows a difference), then
# run our quick checks (default: all 18) against /repo with the patch applied.  Every check
# must stay silent.
id="$1"; shift
wt=/tmp/benign/$id/repo; out=/tmp/benign/$id/out
demo=$(python3 -c "import json;print(json.load(open('$out/meta.json'))['demo_path_in_repo'])")
cmd=$(python3 -c "import json;print(json.load(open('$out/meta.json'))['demo_command'])")
cmd=${cmd#cd $wt && }
cd $wt || exit 2
echo "## 1. demo with the change (should pass)"
( eval "$cmd" 2>&1 | grep -E "^test result|^test .*FAILED|error\[" | head -5 )
echo "## 2. existing tests with the change, demo set aside (must pass)"
mv $demo /tmp/benign/$id/demo.aside
( cargo test --workspace --no-fail-fast --offline 2>&1 | grep -E "^test result|FAILED|panicked" | sort | uniq -c | head -12 )
mv /tmp/benign/$id/demo.aside $demo
echo "## 3. demo without the change (should fail or differ)"
git apply -R $out/patch.diff && ( eval "$cmd" 2>&1 | grep -E "^test result|FAILED" | head -5 ); git apply $out/patch.diff
echo "## 4. our checks on /repo + patch (must all stay silent)"
git -C /repo apply $out/patch.diff || { echo "patch does not apply to /repo"; exit 2; }
props="$@"; [ -z "$props" ] && props="C01 C02 C03 C04 C05 C06 C07 C08 C09 C10 C11 C12 C13 C14 C15 C16 C17 C18"
for p in $props; do /verif/run.sh $p quick 2>&1 | grep -E "VIOLATION|sub-check|tier=|^error|could not compile" | cut -c1-400; done
git -C /repo checkout -- . && git -C /repo clean -fdq
git -C /repo status --short
