#!/usr/bin/env python3
"""Regenerates /verif/MANIFEST.json from the table below (one entry per property)."""
import json, os, sys
here = os.path.dirname(os.path.dirname(os.path.abspath(__file__)))

CHECKS = {
 "C01": dict(cat="exploration", design="5/C01",
   technique="property-based testing (proptest): round-trip oracle over generated report sets and selections",
   text="Generated (measurement, epoch, t, n, per-client aux, randomness source incl. a real PPOPRF exchange, wire round trip) and three share selections per case; every report must decrypt to exactly what its client supplied. Sampling of an unbounded input space with measured class distribution; not a proof.",
   note="OsRng inside the code under test is not steered; proptest 1.11 and the harness's own payload parser are trusted."),
 "C06": dict(cat="exploration", design="5/C06",
   technique="property-based testing (proptest) against an independent big-integer model (Horner, Lagrange) with scripted random sources",
   text="Generated thresholds 1..600, secrets of 0..16 boundary/uniform elements, scripted random-source streams (incl. zero words and limbs of p), both dealing modes, selections with permutation/duplicates/surplus, sub-threshold and unequal-length collections, out-of-range secrets. Every dealt value and every recovery is compared with num-bigint Horner/Lagrange; coefficients are compared with the draws replayed from the same stream. Sampling, not proof.",
   note="num-bigint is the yardstick; a 'draw' is defined by replaying the stream through Fp::random; endless degenerate streams are excluded (they hang rejection sampling by construction)."),
 "C07": dict(cat="exploration", design="5/C07",
   technique="exhaustive boundary lattice + property-based testing (proptest) against big-integer arithmetic mod p",
   text="Complete enumeration of a 43-value boundary set crossed with itself for every binary operation and of the set for every unary operation (with every boundary value as exponent), plus generated operands/exponents and 24-byte strings for decoding; published constants checked against their documented meaning with p-1 = 2q re-verified. The lattice part is exhaustive, the rest is sampling of 2^258 pairs.",
   note="num-bigint 0.3.3 is trusted as the arithmetic reference; Miller-Rabin (24 bases) for the primality of p and q."),
 "C08": dict(cat="fault_enumeration", design="5/C08",
   technique="differential testing against an independently written layout parser, with per-base complete fault enumeration (proptest-generated bases)",
   text="For generated honest and model-built encodings: every prefix, every length field x 21 boundary values, 12 fault kinds at every byte offset, splices, appended bytes, out-of-range elements, raw strings; each string goes to all four decoders and the verdict (accept/reject/either) and the re-encoding are compared with the independent model. Honest values must round-trip and be canonical.",
   note="The layout model was written from the documented layout; trailing-byte policy after J and after the tag chunk is left open (MAY)."),
 "C09": dict(cat="fault_enumeration", design="5/C09",
   technique="property-based testing / fault injection (proptest) with catch_unwind oracle over every consumer of foreign data",
   text="All listed entry points run under catch_unwind on the malformed-string families of C08, on degenerate but decodable shares, on mutated public-key/proof bytes and JSON texts (every prefix), on arbitrary 32-byte points x tags, on evaluations with missing proofs / undecodable points, and on arbitrary text for the WASM grouping call; decoded values are passed on to their consumers. Any unwind is a violation.",
   note="Aborts are only detected through the exit status (run.sh); Point::from(&[u8]) and Client::unblind are outside the statement's list."),
}
PENDING = {}

def main():
    props = [json.loads(l)["id"] for l in open(os.path.join(here, "properties.jsonl"))]
    checks = []
    na = []
    for pid in props:
        if pid in CHECKS:
            c = CHECKS[pid]
            checks.append({
              "property_id": pid,
              "quick_cmd": f"./run.sh {pid} quick",
              "thorough_cmd": f"./run.sh {pid} thorough",
              "evidence_file": f"/verif/evidence/{pid}.json",
              "replay_cmd_template": f"./harness/target/release/verif replay {pid} {{path}}",
              "engine": c.get("engine", "E1-proptest"),
              "level_claimed": {"category": c["cat"], "text": c["text"], "design_ref": c["design"]},
              "level_note": c["note"],
              "technique": c["technique"],
            })
        else:
            na.append({"property_id": pid, "reason": PENDING.get(pid, "check not built yet (work in progress; design in DESIGN.md section 5)")})
    m = {
      "version": 1,
      "setup_cmd": "./setup.sh",
      "hooks": {
        "guard": "cargo feature `verif-hooks` of crate ppoprf",
        "enable": "the harness depends on /repo/ppoprf with features [\"key-sync\", \"verif-hooks\"] (see harness/Cargo.toml)",
        "baseline_off_cmd": "cd /repo && cargo test --workspace --no-fail-fast --offline",
        "source_commits": HOOK_COMMITS,
        "add_only": True,
      },
      "engines": [
        {"name": "E1-proptest", "path": "harness/", "serves_properties": sorted(CHECKS.keys()),
         "kind_free_text": "proptest 1.11 driven from a binary: fixed case counts, ChaCha seeded from VERIF_SEED, sharded over the cores, shrinking, replay files; complete enumeration for finite sub-spaces"},
      ],
      "checks": checks,
      "notes": "run.sh rebuilds the harness (path dependencies on /repo) before every check; exit 2 = inconclusive (build failure / watchdog), never a violation. Known findings: known_findings.json.",
      "not_applicable": na,
    }
    json.dump(m, open(os.path.join(here, "MANIFEST.json"), "w"), indent=1)
    print("claimed:", len(checks), "not_applicable:", len(na))

HOOK_COMMITS = ["5c0df98"]
if __name__ == "__main__":
    main()
