#!/usr/bin/env python3
"""Regenerates /verif/MANIFEST.json from the table below (one entry per property)."""
import json, os, sys
here = os.path.dirname(os.path.dirname(os.path.abspath(__file__)))

CHECKS = {
 "C01": dict(cat="exploration", design="5/C01",
   technique="property-based testing (proptest): round-trip oracle over generated report sets and selections",
   text="Generated (measurement, epoch, t, n, per-client aux, randomness source incl. a real PPOPRF exchange, wire round trip) and three share selections per case; every report must decrypt to exactly what its client supplied. Sampling of an unbounded input space with measured class distribution; not a proof.",
   note="OsRng inside the code under test is not steered; proptest 1.11 and the harness's own payload parser are trusted."),
}
PENDING = {}

def main():
    props = [json.loads(l)["id"] for l in open(os.path.join(here, "properties.jsonl"))]
    checks = []
    na = []
    for pid in props:
        if pid in CHECKS:
            c = CHECKS[pid]
            checks.append({
              "property_id": pid,
              "quick_cmd": f"./run.sh {pid} quick",
              "thorough_cmd": f"./run.sh {pid} thorough",
              "evidence_file": f"/verif/evidence/{pid}.json",
              "replay_cmd_template": f"./harness/target/release/verif replay {pid} {{path}}",
              "engine": c.get("engine", "E1-proptest"),
              "level_claimed": {"category": c["cat"], "text": c["text"], "design_ref": c["design"]},
              "level_note": c["note"],
              "technique": c["technique"],
            })
        else:
            na.append({"property_id": pid, "reason": PENDING.get(pid, "check not built yet (work in progress; design in DESIGN.md section 5)")})
    m = {
      "version": 1,
      "setup_cmd": "./setup.sh",
      "hooks": {
        "guard": "cargo feature `verif-hooks` of crate ppoprf",
        "enable": "the harness depends on /repo/ppoprf with features [\"key-sync\", \"verif-hooks\"] (see harness/Cargo.toml)",
        "baseline_off_cmd": "cd /repo && cargo test --workspace --no-fail-fast --offline",
        "source_commits": HOOK_COMMITS,
        "add_only": True,
      },
      "engines": [
        {"name": "E1-proptest", "path": "harness/", "serves_properties": sorted(CHECKS.keys()),
         "kind_free_text": "proptest 1.11 driven from a binary: fixed case counts, ChaCha seeded from VERIF_SEED, sharded over the cores, shrinking, replay files; complete enumeration for finite sub-spaces"},
      ],
      "checks": checks,
      "notes": "run.sh rebuilds the harness (path dependencies on /repo) before every check; exit 2 = inconclusive (build failure / watchdog), never a violation. Known findings: known_findings.json.",
      "not_applicable": na,
    }
    json.dump(m, open(os.path.join(here, "MANIFEST.json"), "w"), indent=1)
    print("claimed:", len(checks), "not_applicable:", len(na))

HOOK_COMMITS = ["5c0df98"]
if __name__ == "__main__":
    main()
