#!/usr/bin/env python3
"""Regenerates /verif/MANIFEST.json from the table below (one entry per property)."""
import json, os, sys
here = os.path.dirname(os.path.dirname(os.path.abspath(__file__)))

CHECKS = {
 "C01": dict(cat="exploration", design="5/C01",
   technique="property-based testing (proptest): round-trip oracle over generated report sets and selections",
   text="Generated (measurement, epoch, t, n, per-client aux, randomness source incl. a real PPOPRF exchange, wire round trip) and three share selections per case; every report must decrypt to exactly what its client supplied. Sampling of an unbounded input space with measured class distribution; not a proof.",
   note="OsRng inside the code under test is not steered; proptest 1.11 and the harness's own payload parser are trusted."),
 "C06": dict(cat="exploration", design="5/C06",
   technique="property-based testing (proptest) against an independent big-integer model (Horner, Lagrange) with scripted random sources",
   text="Generated thresholds 1..600, secrets of 0..16 boundary/uniform elements, scripted random-source streams (incl. zero words and limbs of p), both dealing modes, selections with permutation/duplicates/surplus, sub-threshold and unequal-length collections, out-of-range secrets. Every dealt value and every recovery is compared with num-bigint Horner/Lagrange; coefficients are compared with the draws replayed from the same stream. Sampling, not proof.",
   note="num-bigint is the yardstick; a 'draw' is defined by replaying the stream through Fp::random; endless degenerate streams are excluded (they hang rejection sampling by construction)."),
 "C07": dict(cat="exploration", design="5/C07",
   technique="exhaustive boundary lattice + property-based testing (proptest) against big-integer arithmetic mod p",
   text="Complete enumeration of a boundary set (values next to 0, 2^32, 2^63, 2^64, 2^127, 2^128, (p-1)/2, p, their inverses, and the same boundaries of the internal Montgomery representation) crossed with itself for every binary operation and of the set for every unary operation (with every boundary value as exponent), plus every element of [2^128, p), generated operands/exponents and 24-byte strings for decoding; published constants checked against their documented meaning with p-1 = 2q re-verified. The lattice part is exhaustive, the rest is sampling of 2^258 pairs.",
   note="num-bigint 0.3.3 is trusted as the arithmetic reference; Miller-Rabin (24 bases) for the primality of p and q."),
 "C08": dict(cat="fault_enumeration", design="5/C08",
   technique="differential testing against an independently written layout parser, with per-base complete fault enumeration (proptest-generated bases)",
   text="For generated honest and model-built encodings: every prefix, every length field x 21 boundary values, 12 fault kinds at every byte offset, splices, appended bytes, out-of-range elements, raw strings; each string goes to all four decoders and the verdict (accept/reject/either) and the re-encoding are compared with the independent model. Honest values must round-trip and be canonical.",
   note="The layout model was written from the documented layout; trailing-byte policy after J and after the tag chunk is left open (MAY)."),
 "C09": dict(cat="fault_enumeration", design="5/C09",
   technique="property-based testing / fault injection (proptest) with catch_unwind oracle over every consumer of foreign data",
   text="All listed entry points run under catch_unwind on the malformed-string families of C08, on degenerate but decodable shares, on mutated public-key/proof bytes and JSON texts (every prefix), on arbitrary 32-byte points x tags, on evaluations with missing proofs / undecodable points, and on arbitrary text for the WASM grouping call; decoded values are passed on to their consumers. Any unwind is a violation.",
   note="Aborts are only detected through the exit status (run.sh); Point::from(&[u8]) and Client::unblind are outside the statement's list."),

 "C02": dict(cat="exploration", design="5/C02",
   technique="property-based testing (proptest): adversarial sub-threshold collections, byte scans for secrets, big-integer coefficient recovery",
   text="Generated sub-threshold collections (d <= t-1 distinct target reports padded with duplicates and foreign reports, forged thresholds 0..t-1 / t+1 / 2^32-1, shuffled) must never recover the target secret and must fail unless a foreign group reaches its own threshold; every encoded report is scanned at every offset for the client's 16/24/32-byte secrets; polynomial shape (exact degree, non-zero pairwise distinct coefficients, disjoint across measurements) is recovered with num-bigint. Necessary conditions for confidentiality, sampled.",
   note="Confidentiality cannot be established by testing; only the listed necessary conditions are checked. Secrets are obtained through the public API."),
 "C03": dict(cat="exploration", design="5/C03",
   technique="property-based testing (proptest): metamorphic ciphertext/plaintext difference relation, window-as-key decryption, byte scans",
   text="Sequences of 2-5 sub-threshold reports of one measurement with related associated data: aux never in the clear, no 16/32-byte window of the report decrypts the payload, C xor C' vs P xor P' stays at chance level outside the duplex block of the first difference and between different measurements. The relation inside that block is the recorded known finding F9 (no per-report nonce); it is announced with KNOWN-FINDING and excluded, every other violation still fails the check.",
   note="Statistical bound N/256 + 7 sqrt(N/256) + 4 and no run >= 8 for the XOR relation; Strobe-128 block = 166 bytes."),
 "C04": dict(cat="exploration", design="5/C04",
   technique="property-based testing (proptest) with a relation generator for pairs of triples plus enumerated boundary-shift families",
   text="Independent clients agreeing on (measurement, epoch, threshold) must derive equal randomness, tags and keys, pairwise distinct evaluation points and mutually combinable shares; related-but-different triples (boundary shifts, emptied components, prefixes, every one-bit threshold change, zero padding) must differ in randomness, tag and key; every split of short strings is enumerated against every other.",
   note="Tags/keys are observable only through a sharing, hence compared for thresholds <= 200; randomness for all u32 thresholds."),
 "C05": dict(cat="fault_enumeration", design="5/C05",
   technique="property-based testing (proptest) over share mixtures with per-share complete fault enumeration (field x offset x kind)",
   text="1-4 sharings interleaved with repetition, then one fault, a rewritten threshold, a transplanted field or all offsets x 12 kinds on one share; the result must be Err or the message of the sharing of the first share, and an altered first share must be rejected (exemption: x at t = 1).",
   note="Share points come from OsRng; decode rejection counts as rejection."),
 "C10": dict(cat="model_checking", design="5/C10",
   technique="model-based testing: exhaustive sub-domain lattice exploration + all ordered pairs + proptest operation histories against a reference model",
   text="Reference model (256 original values + punctured set). Every subset and every single-step transition of 8-leaf (thorough: also 16-leaf) sub-domains in six shapes, all 65280 ordered pairs, and generated histories up to complete puncturing in adversarial orders; the invariant is checked after every step on the real GGM key.",
   note="Exhaustive only for the explored sub-domains; each key is a fresh OsRng key."),
 "C11": dict(cat="model_checking", design="5/C11",
   technique="model-based testing with an observation hook: same exploration as C10 plus proptest server histories with export/import at every position",
   text="After every step of the C10 exploration and of generated server histories the retained node list (hook) must cover no punctured input and every unpunctured one exactly once, path seeds and punctured values must not survive in the key or as a substring of the exported state, and an importer must behave like the exporter on all 256 inputs.",
   note="Needs the verif-hooks view of the retained nodes; material hidden outside the node list / export is invisible."),
 "C12": dict(cat="exploration", design="5/C12",
   technique="property-based testing (proptest): algebraic equalities / inequalities across repeated blinded requests",
   text="For generated inputs, tag sets, 1-3 servers and 2-6 repeated requests: unblinded result equals the server's evaluation of the unblinded input point, finalised output identical across requests and different across tags, inputs and servers; blinded points fresh and different from the input point.",
   note="Blinding scalars and keys come from OsRng; unlinkability is only sampled through freshness."),
 "C13": dict(cat="fault_enumeration", design="5/C13",
   technique="property-based testing (proptest) with systematic component substitution; commitments recomputed with curve25519-dalek",
   text="Honest tuples verify in original and restored (bincode / JSON) form; each of the six components replaced in turn by other honest values, neighbours (+-1, bit flips), identity / zero, undecodable strings must be rejected; commitments s*G + c*PK recomputed in the harness are pairwise distinct, also for repeated identical requests.",
   note="Public-key tampering limited to base point, the verified tag's entry, another server's key."),
 "C14": dict(cat="model_checking", design="5/C14",
   technique="model-based stateful testing (proptest op sequences interpreted against a reference model of the server pool)",
   text="Histories of eval / puncture / clone / export-import into a server created with another tag set / sweeps over a pool of handles; after every op: answers iff registered and unpunctured in that handle's history, answers never change, punctures affect no other tag, public key constant, importer equal to exporter on all 256 tags, clones independent.",
   note="Bounded depth (60 / 120 ops); keys from OsRng."),
 "C15": dict(cat="exploration", design="5/C15",
   technique="property-based testing (proptest) with round-trip oracle and an independent reader of the documented bincode/JSON forms; enumerated tag-set sizes and truncations",
   text="Round trips for keys of every tag-set size, proofs, points, evaluations, all original/restored combinations interchangeable in verification; every strict prefix refused; limits +-2; mutated / unsorted / repeated-tag / raw bytes judged against an independent reader so that an accepted value is never partially initialised.",
   note="bincode trailing-byte tolerance is not asserted; JSON via from_str/from_slice only."),
 "C16": dict(cat="exploration", design="5/C16",
   technique="property-based testing (proptest): round-trip, determinism and re-share metamorphic relations, big-integer polynomial consistency",
   text="For generated (t, message, coins, transcripts): shares identical outside S, points on one polynomial, t distinct recover / t-1 do not, recovered sharing re-shares compatibly (old+new mixes recover), t = 0 never recovers, custom-transcript shares rejected.",
   note="Share points from OsRng; lengths to 3 kB quick / 100 kB thorough."),
 "C17": dict(cat="exploration", design="5/C17",
   technique="property-based testing (proptest): differential against the core API",
   text="create_share output parsed independently (serde_json, base64) and compared with MessageGenerator::share_with_local_randomness; group_shares returns the clients' key iff >= t distinct shares, never under another epoch, nothing for mixed groupings below threshold or t = 0; epochs include empty, multi-byte and long strings (up to 600 characters, lengths around 64, 128, 256).",
   note="wasm_bindgen functions are called natively on the host target."),
 "C18": dict(cat="exploration", design="5/C18",
   technique="property-based testing (proptest): expected-multiset oracle under permutations and worker-pool sizes",
   text="Generated report multisets (group sizes around t, up to 40 / 400 groups, aux absent/empty/bytes), each run in grouped order, permuted order and under two rayon pool sizes; output must equal the multiset of groups with >= t reports with exactly their associated data. A second sub-check runs single calls with more than 16384 / 32768 reports whose qualifying measurements have reports at both ends of the input.",
   note="Schedules only through pool size; empty and absent associated data compared as equal for this reference utility (asserted exactly in C01)."),
}
PENDING = {}

def main():
    props = [json.loads(l)["id"] for l in open(os.path.join(here, "properties.jsonl"))]
    checks = []
    na = []
    for pid in props:
        if pid in CHECKS:
            c = CHECKS[pid]
            checks.append({
              "property_id": pid,
              "quick_cmd": f"./run.sh {pid} quick",
              "thorough_cmd": f"./run.sh {pid} thorough",
              "evidence_file": f"/verif/evidence/{pid}.json",
              "replay_cmd_template": f"./harness/target/release/verif replay {pid} {{path}}",
              "engine": c.get("engine", "E1-proptest"),
              "level_claimed": {"category": c["cat"], "text": c["text"], "design_ref": c["design"]},
              "level_note": c["note"],
              "technique": c["technique"],
            })
        else:
            na.append({"property_id": pid, "reason": PENDING.get(pid, "check not built yet (work in progress; design in DESIGN.md section 5)")})
    m = {
      "version": 1,
      "setup_cmd": "./setup.sh",
      "hooks": {
        "guard": "cargo feature `verif-hooks` of crate ppoprf",
        "enable": "the harness depends on /repo/ppoprf with features [\"key-sync\", \"verif-hooks\"] (see harness/Cargo.toml)",
        "baseline_off_cmd": "cd /repo && cargo test --workspace --no-fail-fast --offline",
        "source_commits": HOOK_COMMITS,
        "add_only": True,
      },
      "engines": [
        {"name": "E1-proptest", "path": "harness/", "serves_properties": sorted(CHECKS.keys()),
         "kind_free_text": "proptest 1.11 driven from a binary: fixed case counts, ChaCha seeded from VERIF_SEED, sharded over the cores, shrinking, replay files; complete enumeration for finite sub-spaces"},
        {"name": "E2-libfuzzer", "path": "fuzz/", "serves_properties": ["C05", "C07", "C08", "C09", "C10", "C11", "C14", "C15"],
         "kind_free_text": "cargo-fuzz / libFuzzer targets fz_decode, fz_recover, fz_ppoprf, fz_wasm, fz_server, fz_field; the semantic oracle is inside the target (harness/src/fuzzentry.rs, shared with E1); bounded campaigns (-runs, -seed) from a deterministic seed corpus and from an empty corpus, thorough tier only; artefacts are classified and replayed through the harness binary"},
      ],
      "checks": checks,
      "notes": "run.sh rebuilds the harness (path dependencies on /repo) before every check; exit 2 = inconclusive (build failure / watchdog), never a violation. Known findings: known_findings.json.",
      "not_applicable": na,
    }
    json.dump(m, open(os.path.join(here, "MANIFEST.json"), "w"), indent=1)
    print("claimed:", len(checks), "not_applicable:", len(na))

HOOK_COMMITS = ["5c0df98", "44ba1c0"]
if __name__ == "__main__":
    main()
