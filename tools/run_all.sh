#!/bin/bash
# run every registered check (quick by default) on the current tree and validate the evidence
tier="${1:-quick}"
cd "$(dirname "$0")/.."
rc=0
for p in C01 C02 C03 C04 C05 C06 C07 C08 C09 C10 C11 C12 C13 C14 C15 C16 C17 C18; do
  ./run.sh $p $tier | grep -E "tier=|VIOLATION|INCONCLUSIVE|KNOWN-FINDING" | cut -c1-160
  [ ${PIPESTATUS[0]} -ne 0 ] && rc=1
done
tools/validate.py | grep -v "^ok" && rc=1
exit $rc
