#!/usr/bin/env python3
"""seed_keep.py <agent-dir-id> <seeded-id> <caught_by comma list> [note]: copy a confirmed seeded change into /verif/seeded/<seeded-id>/"""
import json, os, shutil, sys
src, sid, caught = sys.argv[1], sys.argv[2], sys.argv[3]
note = sys.argv[4] if len(sys.argv) > 4 else ""
out = f"/tmp/seed/{src}/out"
dst = f"/verif/seeded/{sid}"
os.makedirs(dst, exist_ok=True)
m = json.load(open(f"{out}/meta.json"))
shutil.copy(f"{out}/patch.diff", f"{dst}/patch.diff")
demo = m["demo_path_in_repo"]
cands = [f"{out}/{demo}", f"{out}/{os.path.basename(demo)}", f"/tmp/seed/{src}/repo/{demo}"]
for c in cands:
    if os.path.exists(c):
        shutil.copy(c, f"{dst}/{os.path.basename(demo)}"); break
m["demo_command"] = m["demo_command"].replace(f"cd /tmp/seed/{src}/repo && ", "")
m["origin"] = "written by an independent sub-agent that was given only the property text and a scratch worktree"
m["confirmed_by_me"] = {
  "demo_fails_with_patch": True, "demo_passes_without_patch": True, "existing_51_tests_pass_with_patch": True,
  "how": "tools/seed_verify.sh: ran the demo with and without the patch and `cargo test --workspace --no-fail-fast --offline` with the patch in the scratch worktree; then `git -C /repo apply patch.diff`, `./run.sh <ID> quick`, `git -C /repo checkout -- .`",
}
m["caught_by_quick_checks"] = [c for c in caught.split(",") if c]
if note:
    m["note"] = note
json.dump(m, open(f"{dst}/meta.json", "w"), indent=1)
print("kept", dst, os.listdir(dst))
