#!/bin/bash
# seed_verify.sh <ID> [props...]: confirm a sub-agent's seeded change in its scratch
# worktree (/tmp/seed/<ID>/repo), then run our checks against /repo with the patch applied.
id="$1"; shift
wt=/tmp/seed/$id/repo; out=/tmp/seed/$id/out
demo=$(python3 -c "import json;print(json.load(open('$out/meta.json'))['demo_path_in_repo'])")
cmd=$(python3 -c "import json;print(json.load(open('$out/meta.json'))['demo_command'])")
cmd=${cmd#cd $wt && }
cd $wt || exit 2
echo "## 1. demo with the change (must fail)"
( eval "$cmd" 2>&1 | grep -E "^test result|^test .*FAILED|error\[" | head -5 )
echo "## 2. existing tests with the change, demo set aside (must pass)"
mv $demo /tmp/seed/$id/demo.aside
( cargo test --workspace --no-fail-fast --offline 2>&1 | grep -E "^test result|FAILED|panicked" | sort | uniq -c | head -12 )
mv /tmp/seed/$id/demo.aside $demo
echo "## 3. demo without the change (must pass)"
git apply -R $out/patch.diff && ( eval "$cmd" 2>&1 | grep -E "^test result|FAILED" | head -5 ); git apply $out/patch.diff
echo "## 4. our checks on /repo + patch"
git -C /repo apply $out/patch.diff || { echo "patch does not apply to /repo"; exit 2; }
for p in "$@"; do /verif/run.sh $p quick 2>/dev/null | grep -E "VIOLATION|sub-check|tier=" | cut -c1-400; done
git -C /repo checkout -- . && git -C /repo clean -fdq
git -C /repo status --short
