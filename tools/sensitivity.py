#!/usr/bin/env python3
"""Sensitivity runner: applies deliberate breaks (mutants) to a scratch worktree
of /repo, rebuilds a scratch copy of the harness against it, and records which
checks report a violation.  /repo and /verif are never modified.

usage: tools/sensitivity.py [--all-props] [--tests] [--keep] [--seeded | --benign-dir] [name-substring ...]
Results: tools/sensitivity_results.json (merged across runs).
"""
import json, os, re, shutil, subprocess, sys, time

VERIF = os.path.dirname(os.path.dirname(os.path.abspath(__file__)))
SCR = os.environ.get("SENS_DIR", "/tmp/sens")
REPO = f"{SCR}/repo"
HARN = f"{SCR}/verif/harness"
ALL = [f"C{i:02d}" for i in range(1, 19)]

def sh(cmd, cwd=None, timeout=3600, env=None):
    e = dict(os.environ)
    e["CARGO_NET_OFFLINE"] = "true"
    if env:
        e.update(env)
    p = subprocess.run(cmd, shell=True, cwd=cwd, stdout=subprocess.PIPE, stderr=subprocess.STDOUT, timeout=timeout, env=e, text=True)
    return p.returncode, p.stdout

# (name, expected properties, [(file, old, new), ...], note)
M = []
def mut(name, props, edits, note=""):
    M.append(dict(name=name, props=props, edits=edits, note=note))

# ---- reverts of the repaired defects --------------------------------------
mut("revert-F1-share-short-input", ["C09", "C08"], [("adss/src/lib.rs",
    "    if slice.len() < ACCESS_STRUCTURE_LENGTH {\n      return None;\n    }\n", "")])
mut("revert-F2-load-bytes-overflow", ["C09", "C08"], [("adss/src/lib.rs",
    "  let len = load_u32(&bytes[..4])? as usize;\n  if bytes.len() - 4 < len {\n    return None;\n  }\n\n  Some(&bytes[4..4 + len])",
    "  let len: u32 = load_u32(&bytes[..4])?;\n  if bytes.len() < (4 + len) as usize {\n    return None;\n  }\n\n  Some(&bytes[4..4 + len as usize])")])
mut("revert-F3-short-key", ["C09"], [("adss/src/lib.rs",
    "  if key.len() < 16 {\n    return Err(\"recovered secret is too short to hold a key\".into());\n  }\n", "")])
mut("revert-F4-verify-unwraps", ["C09", "C13"], [("ppoprf/src/ppoprf.rs",
    "        _ => return false,\n", "        _ => panic!(\"unwrap on None\"),\n")])
mut("revert-F5-pk-unwrap", ["C09"], [("ppoprf/src/ppoprf.rs",
    "    let md = md_pk.decompress().ok_or(PPRFError::BadPointEncoding)?;", "    let md = md_pk.decompress().unwrap();")])
mut("revert-F6-wasm-unwrap", ["C09"], [("star-wasm/src/lib.rs",
    ".map(|chunk| Share::from_bytes(&BASE64_STANDARD.decode(chunk).ok()?))", ".map(|chunk| Share::from_bytes(&BASE64_STANDARD.decode(chunk).unwrap()))")])
mut("revert-F7-generator", ["C07"], [("sharks/src/share_ff.rs", '#[PrimeFieldGenerator = "2"]', '#[PrimeFieldGenerator = "3"]')])
mut("revert-F8-gen-x-zero", ["C06"], [("sharks/src/share_ff.rs",
    "    while rand.is_zero_vartime() {\n      rand = Fp::random(&mut *rng);\n    }\n", "")])
mut("revert-F10-key-not-authenticated", ["C05"], [("adss/src/lib.rs",
    "    if expected[..] != K[..] {\n      return Err(\"Key validation failed\".into());\n    }\n", "")])

# ---- planned breaks (DESIGN section 9) -------------------------------------
mut("c01-no-dedup-in-recover", ["C01", "C06"], [("sharks/src/lib.rs",
    "} else if keys.insert(share.x.to_repr().as_ref().to_vec()) {\n        values.push(share.clone());\n      }",
    "} else {\n        keys.insert(share.x.to_repr().as_ref().to_vec());\n        values.push(share.clone());\n      }")])
mut("c01-empty-aux-dropped", ["C01"], [("star/src/lib.rs",
    "    if let Some(ad) = aux {\n      store_bytes(ad.as_slice(), &mut data);\n    }",
    "    if let Some(ad) = aux {\n      if !ad.as_slice().is_empty() {\n        store_bytes(ad.as_slice(), &mut data);\n      }\n    }")])
mut("c02-leading-coefficient-zero", ["C02", "C06"], [("sharks/src/share_ff.rs",
    "  for _ in 1..k {\n    poly.push(Fp::random(&mut *rng));\n  }",
    "  for i in 1..k {\n    let c = Fp::random(&mut *rng);\n    poly.push(if i == 1 && k > 2 { Fp::ZERO } else { c });\n  }")])
mut("c02-one-coefficient-reused", ["C02", "C06"], [("sharks/src/share_ff.rs",
    "  for _ in 1..k {\n    poly.push(Fp::random(&mut *rng));\n  }",
    "  let c = Fp::random(&mut *rng);\n  for _ in 1..k {\n    poly.push(c);\n  }")])
mut("c02-tag-is-r0", ["C02", "C03"], [("star/src/lib.rs",
    "    let share = mg.share(&r[0], &r[1])?;\n    let tag = r[2];\n\n    let mut data",
    "    let share = mg.share(&r[0], &r[1])?;\n    let tag = r[0];\n\n    let mut data")])
mut("c02-mac-check-deleted", ["C02", "C05"], [("adss/src/lib.rs",
    "    transcript.recv_mac(J).map_err(|_| \"Mac validation failed\")?;", "    let _ = transcript.recv_mac(J);"),
    ("adss/src/lib.rs", "    if expected[..] != K[..] {\n      return Err(\"Key validation failed\".into());\n    }\n", "")])
mut("c03-ciphertext-is-plaintext", ["C03", "C02"], [("star/src/lib.rs",
    "    s.send_enc(&mut x, false);\n", "    let _ = &mut s;\n"),
    ("star/src/lib.rs", "    s.recv_enc(&mut m, false);\n", "    let _ = &mut s;\n")])
mut("c04-threshold-not-in-randomness", ["C04"], [("star/src/lib.rs",
    "      &[&self.epoch, &self.threshold.to_le_bytes()],", "      &[&self.epoch],")])
mut("c04-measurement-epoch-concatenated", ["C04"], [("star/src/lib.rs",
    "    strobe_digest(\n      self.x.as_slice(),\n      &[&self.epoch, &self.threshold.to_le_bytes()],",
    "    strobe_digest(\n      &[self.x.as_slice(), &self.epoch[..]].concat(),\n      &[&self.threshold.to_le_bytes()],")])
mut("c05-threshold-not-authenticated", ["C05"], [("adss/src/lib.rs",
    "    transcript.ad(&self.A.to_bytes(), false);\n    transcript.ad(&self.M, false);\n    transcript.key(&self.R, false);\n\n    // J is a MAC",
    "    transcript.ad(&self.M, false);\n    transcript.key(&self.R, false);\n\n    // J is a MAC"),
    ("adss/src/lib.rs",
    "    transcript.ad(&self.A.to_bytes(), false);\n    transcript.ad(&self.M, false);\n    transcript.key(&self.R, false);\n\n    transcript.recv_mac",
    "    transcript.ad(&self.M, false);\n    transcript.key(&self.R, false);\n\n    transcript.recv_mac")])
mut("c05-coins-not-authenticated", ["C05"], [("adss/src/lib.rs",
    "    transcript.ad(&self.M, false);\n    transcript.key(&self.R, false);\n\n    // J is a MAC",
    "    transcript.ad(&self.M, false);\n    transcript.key(&[], false);\n\n    // J is a MAC"),
    ("adss/src/lib.rs",
    "    transcript.ad(&self.M, false);\n    transcript.key(&self.R, false);\n\n    transcript.recv_mac",
    "    transcript.ad(&self.M, false);\n    transcript.key(&[], false);\n\n    transcript.recv_mac")],
    note="coins R left out of the MAC transcript on both sides; K then no longer depends on R either")
mut("c06-out-of-range-secret-zeroed", ["C06"], [("sharks/src/lib.rs",
    "      if element.is_none().into() {\n        return Err(\"Failed to create field element from secret\");\n      }\n      let element = element.unwrap();",
    "      let element = element.unwrap_or(Fp::from(0u64));")])
mut("c08-y-out-of-range-accepted", ["C08"], [("sharks/src/share_ff.rs",
    "      let f = Option::from(Fp::from_repr(fr))\n        .ok_or(\"Failed to create field element from y representation\")?;",
    "      let f = Option::from(Fp::from_repr(fr)).unwrap_or(Fp::ZERO);")])
mut("c08-threshold-big-endian-when-large", ["C08"], [("adss/src/lib.rs",
    "  pub fn to_bytes(&self) -> [u8; ACCESS_STRUCTURE_LENGTH] {\n    self.threshold.to_le_bytes()\n  }",
    "  pub fn to_bytes(&self) -> [u8; ACCESS_STRUCTURE_LENGTH] {\n    if self.threshold > 0x00FF_FFFF {\n      return self.threshold.to_be_bytes();\n    }\n    self.threshold.to_le_bytes()\n  }")])
mut("c10-copath-stops-early-when-deep", ["C10", "C11"], [("ppoprf/src/ggm.rs",
    "          if rest.len() == pfx_len {", "          if rest.len() == pfx_len || (pfx_len >= 3 && rest.len() == pfx_len + 1) {")])
mut("c10-drops-a-sibling-when-deep", ["C10", "C11"], [("ppoprf/src/ggm.rs",
    "      if !new_prefixes.is_empty() {\n        self.prefixes.extend(new_prefixes);\n      }",
    "      if !new_prefixes.is_empty() {\n        let mut new_prefixes = new_prefixes;\n        if pfx.len() >= 4 {\n          new_prefixes.pop();\n        }\n        self.prefixes.extend(new_prefixes);\n      }")])
mut("c11-blacklist-but-keep-covering-node", ["C11"], [("ppoprf/src/ggm.rs",
    "      self.prefixes.remove(index);\n      if !new_prefixes.is_empty() {",
    "      if pfx.len() < 2 {\n        self.prefixes.remove(index);\n      }\n      if !new_prefixes.is_empty() {"),
    ("ppoprf/src/ggm.rs",
    "    let key_prefixes = self.prefixes.clone();\n    for prefix in key_prefixes {",
    "    if self.punctured.iter().any(|p| p.bits == *bv) {\n      return Err(PPRFError::NoPrefixFound);\n    }\n    let key_prefixes = self.prefixes.clone();\n    for prefix in key_prefixes {")],
    note="two cooperating sites: the covering node is kept once the tree is deep, evaluation consults a black list")
mut("c11-leaf-node-also-stored", ["C11"], [("ppoprf/src/ggm.rs",
    "    self.key.puncture(&pfx.0, &Prefix::new(bv), new_pfxs)",
    "    let mut leaf = vec![0u8; 32];\n    let (_, tail) = bv.split_at(pfx_len);\n    self.bit_eval(&tail.to_bitvec(), &pfx.1, &mut leaf);\n    if pfx_len >= 2 {\n      new_pfxs.push((Prefix::new(bv.clone()), leaf));\n    }\n    self.key.puncture(&pfx.0, &Prefix::new(bv), new_pfxs)"),
    ("ppoprf/src/ggm.rs",
    "    let key_prefixes = self.prefixes.clone();\n    for prefix in key_prefixes {",
    "    if self.punctured.iter().any(|p| p.bits == *bv) {\n      return Err(PPRFError::NoPrefixFound);\n    }\n    let key_prefixes = self.prefixes.clone();\n    for prefix in key_prefixes {")])
mut("c12-tag-ignored-without-proof", ["C12", "C14"], [("ppoprf/src/ppoprf.rs",
    "    let tagged_key = self.oprf_key + ts;\n    let exponent = tagged_key.invert();",
    "    let tagged_key = self.oprf_key + ts;\n    let exponent = if verifiable {\n      tagged_key.invert()\n    } else {\n      self.oprf_key.invert()\n    };")])
mut("c12-constant-blinding", ["C12"], [("ppoprf/src/ppoprf.rs",
    "    let r = RistrettoScalar::random(&mut OsRng);\n    (Point((r * point).compress()), CurveScalar::from(r))",
    "    let r = RistrettoScalar::from(7u64);\n    (Point((r * point).compress()), CurveScalar::from(r))")])
mut("c13-deterministic-nonce", ["C13"], [("ppoprf/src/ppoprf.rs",
    "    let r = RistrettoScalar::random(&mut OsRng);\n    let t2 = r * RISTRETTO_BASEPOINT_POINT;",
    "    let r = ProofDLEQ::hash_to_scalar(key.as_bytes(), \"Nonce\");\n    let t2 = r * RISTRETTO_BASEPOINT_POINT;")])
mut("c13-accept-when-s-zero", ["C13"], [("ppoprf/src/ppoprf.rs",
    "    self.c == c\n  }", "    self.c == c || self.s == RistrettoScalar::ZERO\n  }")])
mut("c13-challenge-ignores-input-point", [], [("ppoprf/src/ppoprf.rs",
    "      composite_transcript.extend_from_slice(d[i].compress().as_bytes());\n", "      let _ = &d[i];\n")],
    note="EQUIVALENT for the public API: with single-element batches the composite weight multiplies both points, the proof statement is unchanged; no check is expected to fire")
mut("c14-import-keeps-old-ggm-key", ["C14", "C11"], [("ppoprf/src/ppoprf.rs",
    "    self.pprf.key = private_key.ggm_key;", "    let _ = private_key.ggm_key;")])
mut("c14-puncture-254-also-removes-255", ["C14"], [("ppoprf/src/ppoprf.rs",
    "    self.pprf.puncture(&[md])\n  }",
    "    self.pprf.puncture(&[md])?;\n    if md == 254 {\n      let _ = self.pprf.puncture(&[255]);\n    }\n    Ok(())\n  }")])
mut("c14-clone-shares-nothing-but-pk-regenerated", ["C14"], [("ppoprf/src/ppoprf.rs",
    "  pub fn get_public_key(&self) -> ServerPublicKey {\n    self.public_key.clone()\n  }",
    "  pub fn get_public_key(&self) -> ServerPublicKey {\n    let mut pk = self.public_key.clone();\n    let live: Vec<u8> = pk.md_pks.keys().cloned().filter(|m| self.pprf.eval(&[*m], &mut [0u8; 32]).is_ok()).collect();\n    pk.md_pks.retain(|k, _| live.contains(k));\n    pk\n  }")],
    note="public key drops the entries of punctured tags: the public key changes under punctures")
mut("c15-pk-limit-off-by-one", ["C15"], [("ppoprf/src/ppoprf.rs",
    "    if data.len() > MAX_SERIALIZED_PK_SIZE {", "    if data.len() > MAX_SERIALIZED_PK_SIZE + 1 {")])
mut("c15-json-point-padded", ["C15"], [("ppoprf/src/ppoprf.rs",
    "  let data = BASE64_STANDARD.decode(s).map_err(de::Error::custom)?;",
    "  let mut data = BASE64_STANDARD.decode(s).map_err(de::Error::custom)?;\n  if data.len() == 31 {\n    data.push(0);\n  }")])
mut("c16-threshold-zero-treated-as-one", ["C16"], [("adss/src/lib.rs",
    "  fn from(A: AccessStructure) -> Sharks {\n    Sharks(A.threshold)\n  }", "  fn from(A: AccessStructure) -> Sharks {\n    Sharks(A.threshold.max(1))\n  }")])
mut("c16-custom-transcript-ignored", ["C16"], [("adss/src/lib.rs",
    "    let mut transcript = self\n      .T\n      .clone()\n      .unwrap_or_else(|| Strobe::new(b\"adss\", SecParam::B128));\n    transcript.ad(&self.A.to_bytes(), false);\n    transcript.ad(&self.M, false);\n    transcript.key(&self.R, false);\n\n    // J is a MAC",
    "    let mut transcript = Strobe::new(b\"adss\", SecParam::B128);\n    transcript.ad(&self.A.to_bytes(), false);\n    transcript.ad(&self.M, false);\n    transcript.key(&self.R, false);\n\n    // J is a MAC")])
mut("c17-group-shares-ignores-epoch", ["C17"], [("star-wasm/src/lib.rs",
    "  derive_ske_key(&message, epoch.as_bytes(), &mut enc_key);", "  let _ = epoch;\n  derive_ske_key(&message, b\"\", &mut enc_key);")])
mut("c17-key-and-tag-swapped", ["C17"], [("star-wasm/src/lib.rs",
    "  let key_b64 = BASE64_STANDARD.encode(key);\n  let share_b64 = BASE64_STANDARD.encode(share.to_bytes());\n  let tag_b64 = BASE64_STANDARD.encode(tag);",
    "  let tag_b64 = BASE64_STANDARD.encode(key);\n  let share_b64 = BASE64_STANDARD.encode(share.to_bytes());\n  let key_b64 = BASE64_STANDARD.encode(tag);")])
mut("c18-bucket-filter-strict", ["C18"], [("star/test-utils/src/lib.rs",
    ".filter(|bucket| bucket.len() >= (self.threshold as usize))", ".filter(|bucket| bucket.len() > (self.threshold as usize))")])
mut("c18-only-first-aux-kept-for-big-buckets", ["C18"], [("star/test-utils/src/lib.rs",
    "      aux: splits.into_iter().map(|val| val.1).collect(),",
    "      aux: {\n        let n = splits.len();\n        splits.into_iter().map(|val| val.1).take(if n > 6 { 6 } else { n }).collect()\n      },")])


# ---- property-preserving changes: NO check may fire (false-alarm guard) ----
def benign(name, run, edits, note=""):
    M.append(dict(name="benign:" + name, props=[], run=run, edits=edits, note=note, benign=True))

benign("labels-renamed-consistently", ["C01", "C02", "C03", "C04", "C16", "C17", "C18"], [
    ("star/src/lib.rs", '"star_derive_randoms"', '"star_derive_randoms_v2"'),
    ("star/src/lib.rs", '"star_sample_local"', '"star_sample_local_v2"'),
    ("star/src/lib.rs", '"star_derive_ske_key"', '"star_derive_ske_key_v2"')],
    note="every Strobe label of the STAR layer renamed: all derived values change, every relation stays")
benign("adss-labels-renamed", ["C01", "C02", "C05", "C16", "C08"], [
    ("adss/src/lib.rs", 'Strobe::new(b"adss encrypt", SecParam::B128);\n    key.key(&K, false);\n\n    // C is', 'Strobe::new(b"adss encrypt v2", SecParam::B128);\n    key.key(&K, false);\n\n    // C is'),
    ("adss/src/lib.rs", 'Strobe::new(b"adss encrypt", SecParam::B128);\n  key.key(&K, false);\n\n  // M is', 'Strobe::new(b"adss encrypt v2", SecParam::B128);\n  key.key(&K, false);\n\n  // M is')])
benign("sharks-dedup-with-vec-scan", ["C01", "C06", "C05", "C09", "C16"], [("sharks/src/lib.rs",
    "} else if keys.insert(share.x.to_repr().as_ref().to_vec()) {\n        values.push(share.clone());\n      }",
    "} else if !values.iter().any(|v| v.x == share.x) {\n        keys.insert(share.x.to_repr().as_ref().to_vec());\n        values.push(share.clone());\n      }")])
benign("ggm-new-prefixes-inserted-in-front", ["C10", "C11", "C14", "C12"], [("ppoprf/src/ggm.rs",
    "        self.prefixes.extend(new_prefixes);", "        for p in new_prefixes.into_iter().rev() {\n          self.prefixes.insert(0, p);\n        }")],
    note="internal order of retained nodes changes; prefixes are disjoint so lookups are unaffected")
benign("message-decoder-rejects-trailing-bytes", ["C08", "C09", "C01"], [("star/src/lib.rs",
    "    let tag = load_bytes(slice)?;\n\n    Some(Message {", "    let tag = load_bytes(slice)?;\n    if slice.len() != 4 + tag.len() {\n      return None;\n    }\n\n    Some(Message {")],
    note="stricter: trailing bytes after the tag chunk refused (policy left open by the property)")
benign("share-decoder-tolerates-trailing-bytes-after-mac", ["C08", "C09", "C05"], [("adss/src/lib.rs",
    "    let j: [u8; MAC_LENGTH] = slice.try_into().ok()?;", "    if slice.len() < MAC_LENGTH {\n      return None;\n    }\n    let j: [u8; MAC_LENGTH] = slice[..MAC_LENGTH].try_into().ok()?;")],
    note="more lenient: bytes after J ignored (policy left open); re-encoding drops them")
benign("sharks-decoder-rejects-x-zero", ["C08", "C09", "C05", "C06"], [("sharks/src/share_ff.rs",
    "    let y_bytes = &s[FIELD_ELEMENT_LEN..];", "    let x: Fp = x;\n    if x.is_zero_vartime() {\n      return Err(\"the evaluation point must not be zero\");\n    }\n    let y_bytes = &s[FIELD_ELEMENT_LEN..];")],
    note="hardening: a share at x = 0 is refused at decode")
benign("server-refuses-puncture-of-unregistered-tag", ["C14", "C11", "C09"], [("ppoprf/src/ppoprf.rs",
    "  pub fn puncture(&mut self, md: u8) -> Result<(), PPRFError> {\n    self.pprf.puncture(&[md])",
    "  pub fn puncture(&mut self, md: u8) -> Result<(), PPRFError> {\n    if self.public_key.get(md).is_none() {\n      return Err(PPRFError::BadTag { md });\n    }\n    self.pprf.puncture(&[md])")])
benign("aggregation-output-sorted", ["C18"], [("star/test-utils/src/lib.rs",
    "    collected_messages.values().cloned().collect()", "    let mut keys: Vec<&String> = collected_messages.keys().collect();\n    keys.sort();\n    keys.into_iter().map(|k| collected_messages[k].clone()).collect()")])
benign("second-puncture-reports-already-punctured", ["C10", "C11", "C14"], [("ppoprf/src/ggm.rs",
    "    let bv = bvcast_u8_to_usize(&BitVec::<_, Lsb0>::from_slice(input));\n    let pfx = self.key.find_prefix(&bv)?;",
    "    let bv = bvcast_u8_to_usize(&BitVec::<_, Lsb0>::from_slice(input));\n    if self.key.punctured.iter().any(|p| p.bits == bv) {\n      return Err(PPRFError::AlreadyPunctured);\n    }\n    let pfx = self.key.find_prefix(&bv)?;")],
    note="another error variant for the second puncture")
benign("verify-rejects-identity-points-early", ["C13", "C09", "C12", "C15"], [("ppoprf/src/ppoprf.rs",
    "        (Some(proof), Some(output), Some(input)) => (proof, output, input),",
    "        (Some(proof), Some(output), Some(input)) if output != RistrettoPoint::identity() && input != RistrettoPoint::identity() => (proof, output, input),")],
    note="hardening: identity input/output points refused before the proof equation")

def setup():
    os.makedirs(SCR, exist_ok=True)
    if not os.path.isdir(REPO):
        rc, out = sh(f"git -C /repo worktree add --detach {REPO} HEAD")
        if rc != 0:
            print(out); sys.exit(2)
    else:
        sh("git checkout -- . && git checkout --detach $(git -C /repo rev-parse HEAD)", cwd=REPO)
    os.makedirs(f"{SCR}/verif", exist_ok=True)
    # fresh copy of the harness sources, paths rewritten to the scratch repo
    for d in ["src", ".cargo"]:
        if os.path.isdir(f"{HARN}/{d}"):
            shutil.rmtree(f"{HARN}/{d}")
    os.makedirs(HARN, exist_ok=True)
    shutil.copytree(f"{VERIF}/harness/src", f"{HARN}/src")
    shutil.copytree(f"{VERIF}/harness/.cargo", f"{HARN}/.cargo")
    shutil.copy(f"{VERIF}/harness/Cargo.lock", f"{HARN}/Cargo.lock")
    t = open(f"{VERIF}/harness/Cargo.toml").read().replace('path = "/repo/', f'path = "{REPO}/')
    open(f"{HARN}/Cargo.toml", "w").write(t)
    for f in ["known_findings.json"]:
        shutil.copy(f"{VERIF}/{f}", f"{SCR}/verif/{f}")
    if os.path.isdir(f"{SCR}/verif/regressions"):
        shutil.rmtree(f"{SCR}/verif/regressions")
    shutil.copytree(f"{VERIF}/regressions", f"{SCR}/verif/regressions")

def apply(m):
    if m.get("patch"):
        rc, out = sh(f"git apply {m['patch']}", cwd=REPO)
        return None if rc == 0 else f"patch does not apply: {out[-200:]}"
    for (f, old, new) in m["edits"]:
        p = f"{REPO}/{f}"
        s = open(p).read()
        if old not in s:
            return f"pattern not found in {f}: {old[:60]!r}"
        open(p, "w").write(s.replace(old, new, 1))
    return None

def main():
    args = [a for a in sys.argv[1:] if not a.startswith("--")]
    allprops = "--all-props" in sys.argv
    tests = "--tests" in sys.argv
    setup()
    resf = os.environ.get("SENS_RESULTS", f"{VERIF}/tools/sensitivity_results.json")
    results = json.load(open(resf)) if os.path.exists(resf) else {}
    if "--seeded" in sys.argv:
        import glob
        M.clear()
        for d in sorted(glob.glob(f"{VERIF}/seeded/*/")):
            meta = json.load(open(d + "meta.json"))
            M.append(dict(name="seeded:" + os.path.basename(d.rstrip("/")), props=meta.get("caught_by_quick_checks", [meta["property"]]), edits=[], patch=d + "patch.diff", note=meta.get("summary", "")))
    if "--benign-dir" in sys.argv:
        # property-preserving changes written by independent sub-agents (/verif/benign/*): all 18 checks must stay silent
        import glob
        M.clear()
        for d in sorted(glob.glob(f"{VERIF}/benign/*/")):
            meta = json.load(open(d + "meta.json"))
            only = [c for c in os.environ.get("SENS_ONLY", "").split(",") if c] or ALL  # SENS_ONLY=C04,C09: restrict the checks that are run
            M.append(dict(name="benign-agent:" + os.path.basename(d.rstrip("/")), props=[], run=only, edits=[], patch=d + "patch.diff", note=meta.get("summary", ""), benign=True))
    todo = [m for m in M if not args or any(a in m["name"] for a in args)]
    for m in todo:
        sh("git checkout -- . && git clean -fdq", cwd=REPO)
        err = apply(m)
        r = dict(expected=m["props"], note=m["note"])
        if err:
            r["error"] = err
            results[m["name"]] = r
            print(m["name"], "ERROR", err); continue
        rc, out = sh("cargo build --release --offline 2>&1 | tail -5", cwd=HARN)
        if "error" in out and "warning: unused" not in out and "Finished" not in out:
            r["error"] = "does not compile: " + out[-400:]
            results[m["name"]] = r
            print(m["name"], "BUILD-ERROR", out[-300:]); continue
        if tests:
            rc, out = sh("cargo test --workspace --no-fail-fast --offline 2>&1 | grep -E '^test result|FAILED|panicked' | head -30", cwd=REPO, timeout=1800)
            r["repo_tests_pass"] = ("FAILED" not in out and "failed" not in out.replace("0 failed", ""))
            r["repo_tests"] = out[-600:]
        det = {}
        for p in (ALL if allprops else m.get("run", m["props"])):
            t0 = time.time()
            rc, out = sh(f"{HARN}/target/release/verif check {p} --tier quick", cwd=HARN, env={"VERIF_ROOT": f"{SCR}/verif"}, timeout=1800)
            line = [l for l in out.splitlines() if "sub-check" in l]
            det[p] = dict(exit=rc, wall=round(time.time() - t0, 1), why=(line[0][:300] if line else ""))
        r["detected"] = {p: d for p, d in det.items()}
        r["caught_by"] = [p for p, d in det.items() if d["exit"] == 1]
        results[m["name"]] = r
        if m.get("benign"):
            r["benign"] = True
            print(m["name"], "checks run", m.get("run"), "fired:", r["caught_by"], "   <<<<<< FALSE ALARM" if r["caught_by"] else "(silent, as it must be)", flush=True)
        else:
            print(m["name"], "caught by", r["caught_by"], "expected", m["props"], "" if (set(m["props"]) & set(r["caught_by"]) or not m["props"]) else "   <<<<<< MISSED", flush=True)
        json.dump(results, open(resf, "w"), indent=1)
    sh("git checkout -- . && git clean -fdq", cwd=REPO)
    if "--keep" not in sys.argv:
        sh(f"git -C /repo worktree remove --force {REPO}")
        shutil.rmtree(SCR, ignore_errors=True)

if __name__ == "__main__":
    main()
