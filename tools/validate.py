#!/opt/veriftools/pyvenv/bin/python
import json, jsonschema, glob, sys
ok = True
m = json.load(open('/verif/MANIFEST.json'))
jsonschema.validate(m, json.load(open('/root/.vp/MANIFEST.schema.json')))
es = json.load(open('/root/.vp/EVIDENCE.schema.json'))
for c in m['checks']:
    f = c['evidence_file']
    try:
        e = json.load(open(f)); jsonschema.validate(e, es)
        assert e['level'] == c['level_claimed']['category'], 'level mismatch'
        print('ok', f, e['tier'], e['coverage']['evaluations'], e['coverage']['distinct_nontrivial'], e['wall_s'])
    except Exception as ex:
        ok = False; print('BAD', f, str(ex)[:200])
sys.exit(0 if ok else 1)
